package main

import (
	"crypto/x509"
	"encoding/base64"
	"encoding/json"
	"fmt"
	"strings"
	"time"

	"github.com/beevik/etree"
	saml2 "github.com/russellhaering/gosaml2"
	dsig "github.com/russellhaering/goxmldsig"

	"verif/mc"
	"verif/recipient"
	"verif/world"
)

// C16 — POST-binding forms deliver message and relay state intact; no HTML injection.

var c16Relay = []string{"", "plain", `"><script>alert(1)</script>`, `' onmouseover='x`, "a&b", "&quot;", "line1\nline2", "</form>", "ünï", "a b", "`backtick`", `back\slash`, "{{.}}", "a+b", "<!--", "&#34;", `" autofocus onfocus="x`, "\x00nul", "</script><script>alert(1)</script>", " lead", "trail ", " ", "line\u2028sep", `é" autofocus onfocus=alert(1) x="`, `日本語"><script>alert(1)</script>`, "ü&amp;<b>", "😀'onmouseover='x"}
var c16Builders = []string{"BuildAuthBodyPost", "BuildAuthBodyPostFromDocument", "BuildLogoutBodyPostFromDocument", "BuildLogoutResponseBodyPostFromDocument"}
var c16Docs = []string{"signed", "unsigned", "non-ascii"}
var c16Endpoints = []string{"https://idp.example.com/sso", "https://idp.example.com/sso?tenant=a&mode=b"}

type c16Case struct {
	Relay    int  `json:"relay"`
	Builder  int  `json:"builder"`
	Doc      int  `json:"doc"`
	Endpoint int  `json:"endpoint"`
	Sign     bool `json:"sign_authn_requests"` // BuildAuthBodyPost only
}

const c16ScriptReq = `document.getElementById('SAMLSubmitButton').style.visibility="hidden";document.getElementById('SAMLRequestForm').submit();`
const c16ScriptResp1 = `document.getElementById('SAMLSubmitButton').style.visibility='hidden';`
const c16ScriptResp2 = `document.getElementById('SAMLResponseForm').submit();`

func c16Exec(c c16Case) (keys []string, detail, class string) {
	keys, detail, class = c16ExecOn(world.SP(), c)
	if len(keys) == 0 {
		// a second page from the SAME instance with another relay state must carry that one, and
		// the first page, still held by its caller, must still be the first page afterwards
		sp := world.SP()
		_, _, _, page1, doc1 := c16BuildAndJudge(sp, c)
		c2 := c
		c2.Relay = (c.Relay + 7) % len(c16Relay)
		k2, d2, _ := c16ExecOn(sp, c2)
		for _, k := range k2 {
			keys = append(keys, strings.Replace(k, "C16/", "C16/second-call-on-same-instance/", 1))
		}
		if len(k2) > 0 {
			detail += " | second call on the same instance: " + d2
			class = "DIFFERS"
		}
		c16Build(sp, c) // restore the endpoint configuration of the first case before re-judging
		if k1, d1, _ := c16JudgePage(sp, c, page1, doc1, nil, ""); len(k1) > 0 && c16Builders[c.Builder] != "BuildAuthBodyPost" {
			keys = append(keys, "C16/"+c16Builders[c.Builder]+"/page-handed-out-earlier-changed-by-a-later-call")
			detail += " | the first page, re-read after the second call: " + d1
			class = "DIFFERS"
		}
	}
	return keys, detail, class
}

func c16ExecOn(sp *saml2.SAMLServiceProvider, c c16Case) (keys []string, detail, class string) {
	keys, detail, class, _, _ = c16BuildAndJudge(sp, c)
	return
}

// c16BuildAndJudge also hands back the page the builder returned (the very slice, not a copy)
// and the document bytes, so that the page can be judged again later.
func c16BuildAndJudge(sp *saml2.SAMLServiceProvider, c c16Case) (keys []string, detail, class string, page []byte, docB []byte) {
	var out, docBytes []byte
	var err error
	var p string
	out, docBytes, err, p = c16Build(sp, c)
	keys, detail, class = c16JudgePage(sp, c, out, docBytes, err, p)
	return keys, detail, class, out, docBytes
}

func c16Build(sp *saml2.SAMLServiceProvider, c c16Case) (out []byte, docBytes []byte, err error, p string) {
	sp.IdentityProviderSSOURL = c16Endpoints[c.Endpoint]
	sp.IdentityProviderSLOURL = strings.Replace(c16Endpoints[c.Endpoint], "/sso", "/slo", 1)
	sp.SignAuthnRequests = c.Sign
	relay := c16Relay[c.Relay]
	b := c16Builders[c.Builder]
	p = guard(func() {
		var doc *etree.Document
		switch b {
		case "BuildAuthBodyPost":
			out, err = sp.BuildAuthBodyPost(relay)
			return
		case "BuildAuthBodyPostFromDocument":
			sp.SignAuthnRequests = c16Docs[c.Doc] == "signed"
			doc, err = sp.BuildAuthRequestDocument()
		case "BuildLogoutBodyPostFromDocument":
			if c16Docs[c.Doc] == "signed" {
				doc, err = sp.BuildLogoutRequestDocument("alice@example.com", "_s1")
			} else {
				doc, err = sp.BuildLogoutRequestDocumentNoSig("alice@example.com", "_s1")
			}
		case "BuildLogoutResponseBodyPostFromDocument":
			if c16Docs[c.Doc] == "signed" {
				doc, err = sp.BuildLogoutResponseDocument(saml2.StatusCodeSuccess, "_req1")
			} else {
				doc, err = sp.BuildLogoutResponseDocumentNoSig(saml2.StatusCodeSuccess, "_req1")
			}
		}
		if err != nil {
			return
		}
		if c16Docs[c.Doc] == "non-ascii" {
			doc.Root().CreateElement("note").SetText("ünïcödé & <markup> \"q\" + " + strings.Repeat("日本語😀", 20))
		}
		docBytes, _ = doc.WriteToBytes()
		switch b {
		case "BuildAuthBodyPostFromDocument":
			out, err = sp.BuildAuthBodyPostFromDocument(relay, doc)
		case "BuildLogoutBodyPostFromDocument":
			out, err = sp.BuildLogoutBodyPostFromDocument(relay, doc)
		case "BuildLogoutResponseBodyPostFromDocument":
			out, err = sp.BuildLogoutResponseBodyPostFromDocument(relay, doc)
		}
	})
	return out, docBytes, err, p
}

func c16JudgePage(sp *saml2.SAMLServiceProvider, c c16Case, out, docBytes []byte, err error, p string) (keys []string, detail, class string) {
	relay := c16Relay[c.Relay]
	b := c16Builders[c.Builder]
	detail = fmt.Sprintf("builder=%s relay=%q doc=%s endpoint=%s sign=%v | err=%v panic=%q", b, relay, c16Docs[c.Doc], c16Endpoints[c.Endpoint], c.Sign, err, p)
	kp := "C16/" + b + "/"
	if p != "" {
		return []string{kp + "panic"}, detail, "panic"
	}
	if err != nil {
		return []string{kp + "error"}, detail, "ERROR"
	}
	bad := func(k, f string, a ...interface{}) {
		keys = append(keys, kp+k)
		detail += " | " + fmt.Sprintf(f, a...)
	}
	toks, terr := recipient.TokenizeHTML(string(out))
	if terr != nil {
		bad("page-does-not-tokenize-strictly", "%v in %.300q", terr, string(out))
		return keys, detail, "DIFFERS"
	}
	isResp := b == "BuildLogoutResponseBodyPostFromDocument"
	field, formID, submitValue, method := "SAMLRequest", "SAMLRequestForm", "Submit", "POST"
	endpoint := sp.IdentityProviderSSOURL
	if strings.HasPrefix(b, "BuildLogout") {
		endpoint = sp.IdentityProviderSLOURL
	}
	if isResp {
		field, formID, submitValue, method = "SAMLResponse", "SAMLResponseForm", "Continue", "post"
	}
	// expected token sequence
	type want struct {
		kind, name string
		attrs      map[string]string
		text       string
	}
	var seq []want
	if isResp {
		seq = append(seq, want{kind: "start", name: "html"})
	}
	seq = append(seq, want{kind: "start", name: "form", attrs: map[string]string{"method": method, "action": endpoint, "id": formID}})
	seq = append(seq, want{kind: "start", name: "input", attrs: map[string]string{"type": "hidden", "name": field, "value": "\x00message"}})
	if relay != "" {
		seq = append(seq, want{kind: "start", name: "input", attrs: map[string]string{"type": "hidden", "name": "RelayState", "value": relay}})
	}
	seq = append(seq, want{kind: "start", name: "input", attrs: map[string]string{"id": "SAMLSubmitButton", "type": "submit", "value": submitValue}})
	seq = append(seq, want{kind: "end", name: "form"})
	if isResp {
		seq = append(seq, want{kind: "start", name: "script"}, want{kind: "script-text", text: c16ScriptResp1}, want{kind: "end", name: "script"},
			want{kind: "start", name: "script"}, want{kind: "script-text", text: c16ScriptResp2}, want{kind: "end", name: "script"}, want{kind: "end", name: "html"})
	} else {
		seq = append(seq, want{kind: "start", name: "script"}, want{kind: "script-text", text: c16ScriptReq}, want{kind: "end", name: "script"})
	}
	if len(toks) != len(seq) {
		names := []string{}
		for _, t := range toks {
			names = append(names, t.Kind+":"+t.Name)
		}
		bad("page-structure-differs", "tokens %v (expected %d)", names, len(seq))
		return keys, detail, "DIFFERS"
	}
	var message string
	for i, w := range seq {
		t := toks[i]
		if t.Kind != w.kind || t.Name != w.name {
			bad("page-structure-differs", "token %d is %s:%s, expected %s:%s", i, t.Kind, t.Name, w.kind, w.name)
			return keys, detail, "DIFFERS"
		}
		if w.kind == "script-text" && t.Text != w.text {
			bad("script-text-differs", "script %q", t.Text)
		}
		if w.kind != "start" {
			continue
		}
		if len(t.Attrs) != len(w.attrs) {
			bad("unexpected-attributes", "<%s> has %d attributes, %d expected: %v", t.Name, len(t.Attrs), len(w.attrs), t.Attrs)
			continue
		}
		for _, a := range t.Attrs {
			wv, ok := w.attrs[a.Name]
			switch {
			case !ok:
				bad("unexpected-attributes", "<%s %s>", t.Name, a.Name)
			case wv == "\x00message":
				message = a.Value
			case a.Name == "value" && w.attrs["name"] == "RelayState" && a.Value != wv:
				// html/template replaces NUL by U+FFFD; the statement's relay states are text
				if strings.ReplaceAll(wv, "\x00", "�") == a.Value {
					continue
				}
				bad("RelayState-not-recovered", "RelayState decodes to %q", a.Value)
			case a.Value != wv:
				bad("attribute-value-differs/"+t.Name+"@"+a.Name, "<%s %s=%q> expected %q", t.Name, a.Name, a.Value, wv)
			}
		}
	}
	msg, derr := base64.StdEncoding.DecodeString(message)
	switch {
	case derr != nil:
		bad("message-field-not-base64", "%v", derr)
	case docBytes != nil && string(msg) != string(docBytes):
		bad("message-field-differs-from-document", "decoded %d bytes != document %d bytes", len(msg), len(docBytes))
	case docBytes == nil:
		// BuildAuthBodyPost builds its own request: an AuthnRequest, signed exactly when configured
		n, pe := recipient.Parse(msg)
		if pe != nil || n.Local != "AuthnRequest" {
			bad("message-is-not-an-AuthnRequest", "%v", pe)
			break
		}
		hasSig := false
		for _, ch := range n.Children {
			if ch.Local == "Signature" {
				hasSig = true
			}
		}
		if hasSig != c.Sign {
			bad(fmt.Sprintf("posted-request-signed=%v-although-SignAuthnRequests=%v", hasSig, c.Sign), "")
		}
		if hasSig {
			reported, _ := sp.GetSigningCertBytes()
			rc, _ := x509.ParseCertificate(reported)
			d := etree.NewDocument()
			d.ReadFromBytes(msg)
			ctx := dsig.NewDefaultValidationContext(&dsig.MemoryX509CertificateStore{Roots: []*x509.Certificate{rc}})
			ctx.Clock = world.Clock(world.T0)
			if _, verr := ctx.Validate(d.Root()); verr != nil {
				bad("posted-request-signature-does-not-verify", "%v", verr)
			}
		}
	}
	if len(keys) > 0 {
		return dedupe(keys), detail, "DIFFERS"
	}
	if relay == "" {
		return nil, detail, "intact/no-relay-state"
	}
	return nil, detail, "intact/relay-state"
}

func c16Replay(raw json.RawMessage) ([]string, string) {
	var c c16Case
	if err := json.Unmarshal(raw, &c); err != nil {
		return nil, err.Error()
	}
	k, d, _ := c16Exec(c)
	return k, d
}

func c16Run(r *mc.Run) {
	r.Rule = "full product relay state(27: quotes, angle brackets, script and attribute-injection payloads, ampersands, character references, newline, U+2028, backtick, backslash, template syntax, plus, comment opener, NUL) x builder(4) x document(3: signed, unsigned, non-ASCII) x endpoint(2: plain, with & query) x SignAuthnRequests(2, BuildAuthBodyPost); oracle = a strict HTML tokenizer: exact token sequence (one form, the message field, RelayState iff non-empty, the submit button, the fixed scripts), exact attribute sets, message field = base64 of exactly the document, RelayState decoding to exactly the value. non-trivial = a page was produced and tokenized; distinct = distinct case"
	var cases []c16Case
	mc.Enumerate(-1, r.Expired, func(ch *mc.Chooser) {
		c := c16Case{}
		c.Builder = ch.Choose("builder", len(c16Builders))
		c.Relay = ch.Choose("relay", len(c16Relay))
		c.Endpoint = ch.Choose("endpoint", len(c16Endpoints))
		if c16Builders[c.Builder] == "BuildAuthBodyPost" {
			c.Sign = ch.Bool("sign")
		} else {
			c.Doc = ch.Choose("doc", len(c16Docs))
		}
		cases = append(cases, c)
	})
	r.State(len(cases))
	r.Par(len(cases), func(i int) {
		c := cases[i]
		keys, detail, class := c16Exec(c)
		r.Eval(1)
		r.Transition(1)
		r.Bucket(class)
		if strings.HasPrefix(class, "intact") || class == "DIFFERS" {
			r.Nontrivial(fmt.Sprintf("%+v", c))
		}
		if i%97 == 0 {
			r.Sample(map[string]interface{}{"case": c, "observed": detail[:min(len(detail), 400)]})
		}
		for _, k := range keys {
			r.Violation(k, detail[:min(len(detail), 1500)], c)
		}
	})
}

func init() {
	register("C16", &check{run: c16Run, replay: c16Replay, quick: 200 * time.Second, thor: 600 * time.Second})
}
