package main

import (
	"crypto/x509"
	"encoding/base64"
	"encoding/json"
	"fmt"
	"strings"
	"sync"
	"time"

	"github.com/beevik/etree"
	saml2 "github.com/russellhaering/gosaml2"
	dsig "github.com/russellhaering/goxmldsig"

	"verif/mc"
	"verif/recipient"
	"verif/world"
)

// C16 — POST-binding forms deliver message and relay state intact; no HTML injection.

var c16Relay = []string{"", "plain", `"><script>alert(1)</script>`, `' onmouseover='x`, "a&b", "&quot;", "line1\nline2", "</form>", "ünï", "a b", "`backtick`", `back\slash`, "{{.}}", "a+b", "<!--", "&#34;", `" autofocus onfocus="x`, "\x00nul", "</script><script>alert(1)</script>", " lead", "trail ", " ", "line\u2028sep", `é" autofocus onfocus=alert(1) x="`, `日本語"><script>alert(1)</script>`, "ü&amp;<b>", "😀'onmouseover='x",
	strings.Repeat("r", 80), strings.Repeat("r", 81), strings.Repeat("long-relay-", 190), strings.Repeat("a", 79) + "日本" + `"><x>`, strings.Repeat("é", 41), strings.Repeat("relay&state=", 400)}
var c16Builders = []string{"BuildAuthBodyPost", "BuildAuthBodyPostFromDocument", "BuildLogoutBodyPostFromDocument", "BuildLogoutResponseBodyPostFromDocument"}
var c16Docs = []string{"signed", "unsigned", "non-ascii", "caller-assembled"}
var c16Endpoints = []string{"https://idp.example.com/sso", "https://idp.example.com/sso?tenant=a&mode=b"}

type c16Case struct {
	Relay    int  `json:"relay"`
	Builder  int  `json:"builder"`
	Doc      int  `json:"doc"`
	Endpoint int  `json:"endpoint"`
	Sign     bool `json:"sign_authn_requests"` // BuildAuthBodyPost only
	// Frags, when set, makes the relay state the concatenation of these fragments of
	// c16Fragments instead of c16Relay[Relay]
	Frags []int `json:"fragments,omitempty"`
	// DocElsewhere: the document was built while the other endpoint was configured (another
	// instance, or before a metadata refresh); the page is rendered with this case's endpoint
	DocElsewhere bool `json:"document_built_under_other_endpoint,omitempty"`
	// Pad, when non-zero, adds an Extensions-like element with that many bytes of text to the
	// document before the page is built (documents of a few hundred bytes up to 200 kB: large
	// certificate chains, caller extensions)
	Pad int `json:"document_padding_bytes,omitempty"`
	// Rerender: the page is first built from the document as it is, then the caller changes the
	// document in place (same root ID: 1 an element added, 2 the element replaced by a signed
	// copy of itself where a signing key exists) and builds the page again; the second page is
	// the one judged and must carry the document as it is then
	Rerender int `json:"changed_in_place_and_rendered_again,omitempty"`
}

// c16Pads puts the serialised document on both sides of every power of two from 1 KiB to
// 128 KiB, with lengths in all three residues mod 3 (base64 padding).
var c16Pads = []int{700, 701, 702, 1500, 3500, 3501, 7000, 7600, 7601, 7602, 8200, 15000, 16001, 31000, 33002, 64000, 66001, 130000, 132002, 200000}

// c16Fragments are the pieces an injection is assembled from; the thorough tier tries every
// sequence of up to three of them.
var c16Fragments = []string{`"`, `'`, "<", ">", "&", "=", "/", " ", "\n", "</form>", "<script>", "</script>", "<!--", "-->", "`", "\\", "{{", "}}", "&quot;", "&#34;", "&lt;", "é", "😀", "\x00", "\u2028", "onfocus", "x", "javascript:"}

func (c c16Case) relay() string {
	if len(c.Frags) == 0 {
		return c16Relay[c.Relay]
	}
	var b strings.Builder
	for _, f := range c.Frags {
		b.WriteString(c16Fragments[f])
	}
	return b.String()
}

const c16ScriptReq = `document.getElementById('SAMLSubmitButton').style.visibility="hidden";document.getElementById('SAMLRequestForm').submit();`
const c16ScriptResp1 = `document.getElementById('SAMLSubmitButton').style.visibility='hidden';`
const c16ScriptResp2 = `document.getElementById('SAMLResponseForm').submit();`

func c16Exec(c c16Case) (keys []string, detail, class string) {
	keys, detail, class = c16ExecOn(world.SP(), c)
	if len(keys) == 0 {
		// a second page from the SAME instance with another relay state must carry that one, and
		// the first page, still held by its caller, must still be the first page afterwards
		sp := world.SP()
		_, _, _, page1, doc1 := c16BuildAndJudge(sp, c)
		c2 := c
		c2.Relay, c2.Frags = (c.Relay+7)%len(c16Relay), nil
		// ... and after the endpoints were changed on that instance (an IdP metadata refresh)
		c2.Endpoint = (c.Endpoint + 1) % len(c16Endpoints)
		k2, d2, _ := c16ExecOn(sp, c2)
		for _, k := range k2 {
			keys = append(keys, strings.Replace(k, "C16/", "C16/second-call-on-same-instance/", 1))
		}
		if len(k2) > 0 {
			detail += " | second call on the same instance: " + d2
			class = "DIFFERS"
		}
		c16Build(sp, c) // restore the endpoint configuration of the first case before re-judging
		if k1, d1, _ := c16JudgePage(sp, c, page1, doc1, nil, ""); len(k1) > 0 && c16Builders[c.Builder] != "BuildAuthBodyPost" {
			keys = append(keys, "C16/"+c16Builders[c.Builder]+"/page-handed-out-earlier-changed-by-a-later-call")
			detail += " | the first page, re-read after the second call: " + d1
			class = "DIFFERS"
		}
	}
	return keys, detail, class
}

func c16ExecOn(sp *saml2.SAMLServiceProvider, c c16Case) (keys []string, detail, class string) {
	keys, detail, class, _, _ = c16BuildAndJudge(sp, c)
	return
}

// c16BuildAndJudge also hands back the page the builder returned (the very slice, not a copy)
// and the document bytes, so that the page can be judged again later.
func c16BuildAndJudge(sp *saml2.SAMLServiceProvider, c c16Case) (keys []string, detail, class string, page []byte, docB []byte) {
	var out, docBytes []byte
	var err error
	var p string
	out, docBytes, err, p = c16Build(sp, c)
	keys, detail, class = c16JudgePage(sp, c, out, docBytes, err, p)
	return keys, detail, class, out, docBytes
}

func c16Build(sp *saml2.SAMLServiceProvider, c c16Case) (out []byte, docBytes []byte, err error, p string) {
	sp.IdentityProviderSSOURL = c16Endpoints[c.Endpoint]
	sp.IdentityProviderSLOURL = strings.Replace(c16Endpoints[c.Endpoint], "/sso", "/slo", 1)
	sp.SignAuthnRequests = c.Sign
	relay := c.relay()
	b := c16Builders[c.Builder]
	p = guard(func() {
		var doc *etree.Document
		if c.DocElsewhere && b != "BuildAuthBodyPost" {
			other := c16Endpoints[(c.Endpoint+1)%len(c16Endpoints)]
			sp.IdentityProviderSSOURL, sp.IdentityProviderSLOURL = other, strings.Replace(other, "/sso", "/slo", 1)
			defer func() {
				sp.IdentityProviderSSOURL = c16Endpoints[c.Endpoint]
				sp.IdentityProviderSLOURL = strings.Replace(c16Endpoints[c.Endpoint], "/sso", "/slo", 1)
			}()
		}
		switch b {
		case "BuildAuthBodyPost":
			out, err = sp.BuildAuthBodyPost(relay)
			return
		case "BuildAuthBodyPostFromDocument":
			sp.SignAuthnRequests = c16Docs[c.Doc] == "signed"
			doc, err = sp.BuildAuthRequestDocument()
		case "BuildLogoutBodyPostFromDocument":
			if c16Docs[c.Doc] == "signed" {
				doc, err = sp.BuildLogoutRequestDocument("alice@example.com", "_s1")
			} else {
				doc, err = sp.BuildLogoutRequestDocumentNoSig("alice@example.com", "_s1")
			}
		case "BuildLogoutResponseBodyPostFromDocument":
			if c16Docs[c.Doc] == "signed" {
				doc, err = sp.BuildLogoutResponseDocument(saml2.StatusCodeSuccess, "_req1")
			} else {
				doc, err = sp.BuildLogoutResponseDocumentNoSig(saml2.StatusCodeSuccess, "_req1")
			}
		}
		if err != nil {
			return
		}
		if c16Docs[c.Doc] == "non-ascii" {
			doc.Root().CreateElement("note").SetText("ünïcödé & <markup> \"q\" + " + strings.Repeat("日本語😀", 20))
		}
		if c.Pad > 0 {
			doc.Root().CreateElement("pad").SetText(strings.Repeat("0123456789abcdef", c.Pad/16+1)[:c.Pad])
		}
		if c16Docs[c.Doc] == "caller-assembled" {
			// a document the caller put together itself (default write settings) around a copy of
			// the element
			own := etree.NewDocument()
			own.SetRoot(doc.Root().Copy())
			doc = own
		}
		if c.Rerender > 0 {
			switch b {
			case "BuildAuthBodyPostFromDocument":
				sp.BuildAuthBodyPostFromDocument(relay, doc)
			case "BuildLogoutBodyPostFromDocument":
				sp.BuildLogoutBodyPostFromDocument(relay, doc)
			case "BuildLogoutResponseBodyPostFromDocument":
				sp.BuildLogoutResponseBodyPostFromDocument(relay, doc)
			}
			if c.Rerender == 1 {
				doc.Root().CreateElement("added-later").SetText("x")
			} else {
				var signed *etree.Element
				var serr error
				switch b {
				case "BuildAuthBodyPostFromDocument":
					signed, serr = sp.SignAuthnRequest(doc.Root())
				case "BuildLogoutBodyPostFromDocument":
					signed, serr = sp.SignLogoutRequest(doc.Root())
				default:
					signed, serr = sp.SignLogoutResponse(doc.Root())
				}
				if serr == nil && signed != nil {
					doc.SetRoot(signed)
				} else {
					doc.Root().CreateAttr("Consent", "urn:oasis:names:tc:SAML:2.0:consent:unspecified")
				}
			}
		}
		docBytes, _ = doc.WriteToBytes()
		defer func() {
			// the caller's document is an input: it is still what it was, and a second page made
			// from it carries the same message
			after, _ := doc.WriteToBytes()
			if err == nil && string(after) != string(docBytes) {
				err = fmt.Errorf("HARNESS-OBSERVED: the builder changed the document it was given (%d bytes before, %d after)", len(docBytes), len(after))
			}
		}()
		// the page is rendered under this case's endpoint
		sp.IdentityProviderSSOURL = c16Endpoints[c.Endpoint]
		sp.IdentityProviderSLOURL = strings.Replace(c16Endpoints[c.Endpoint], "/sso", "/slo", 1)
		switch b {
		case "BuildAuthBodyPostFromDocument":
			out, err = sp.BuildAuthBodyPostFromDocument(relay, doc)
		case "BuildLogoutBodyPostFromDocument":
			out, err = sp.BuildLogoutBodyPostFromDocument(relay, doc)
		case "BuildLogoutResponseBodyPostFromDocument":
			out, err = sp.BuildLogoutResponseBodyPostFromDocument(relay, doc)
		}
	})
	return out, docBytes, err, p
}

func c16JudgePage(sp *saml2.SAMLServiceProvider, c c16Case, out, docBytes []byte, err error, p string) (keys []string, detail, class string) {
	relay := c.relay()
	b := c16Builders[c.Builder]
	detail = fmt.Sprintf("builder=%s relay=%q doc=%s(%d bytes) endpoint=%s sign=%v | err=%v panic=%q", b, relay, c16Docs[c.Doc], len(docBytes), c16Endpoints[c.Endpoint], c.Sign, err, p)
	kp := "C16/" + b + "/"
	if p != "" {
		return []string{kp + "panic"}, detail, "panic"
	}
	if err != nil && strings.HasPrefix(err.Error(), "HARNESS-OBSERVED") {
		return []string{kp + "input-document-modified"}, detail, "DIFFERS"
	}
	if err != nil {
		return []string{kp + "error"}, detail, "ERROR"
	}
	bad := func(k, f string, a ...interface{}) {
		keys = append(keys, kp+k)
		detail += " | " + fmt.Sprintf(f, a...)
	}
	toks, terr := recipient.TokenizeHTML(string(out))
	if terr != nil {
		bad("page-does-not-tokenize-strictly", "%v in %.300q", terr, string(out))
		return keys, detail, "DIFFERS"
	}
	isResp := b == "BuildLogoutResponseBodyPostFromDocument"
	field := "SAMLRequest"
	endpoint := sp.IdentityProviderSSOURL
	if strings.HasPrefix(b, "BuildLogout") {
		endpoint = sp.IdentityProviderSLOURL
	}
	if isResp {
		field = "SAMLResponse"
	}
	// what the statement speaks of: one form posting to the endpoint, holding the message field
	// and the RelayState field iff a relay state was given, submitted by a script
	page := c16ReadPage(toks, field)
	var message string
	switch {
	case page.forms != 1 || page.nested:
		bad("page-structure-differs", "%d form elements (nested=%v), expected a single form", page.forms, page.nested)
		return keys, detail, "DIFFERS"
	case page.action != endpoint:
		bad("attribute-value-differs/form@action", "<form action=%q> expected %q", page.action, endpoint)
	}
	if !strings.EqualFold(page.method, "post") {
		bad("attribute-value-differs/form@method", "<form method=%q> expected POST", page.method)
	}
	if len(page.message) != 1 || page.fieldsOutside > 0 {
		bad("page-structure-differs", "%d %s fields inside the form, %d binding fields outside it", len(page.message), field, page.fieldsOutside)
		return keys, detail, "DIFFERS"
	}
	message = page.message[0]
	switch {
	case relay == "" && len(page.relay) > 0:
		bad("RelayState-field-although-none-given", "RelayState fields %q", page.relay)
	case relay != "" && len(page.relay) != 1:
		bad("page-structure-differs", "%d RelayState fields for a non-empty relay state", len(page.relay))
	case relay != "" && page.relay[0] != relay && strings.ReplaceAll(relay, "\x00", "\ufffd") != page.relay[0]:
		// html/template replaces NUL by U+FFFD; the statement's relay states are text
		bad("RelayState-not-recovered", "RelayState decodes to %q", page.relay[0])
	}
	if !page.submits {
		bad("page-does-not-submit-itself", "no script calls submit()")
	}
	// and nothing else may depend on the relay state or the document: same skeleton as the page
	// the same builder makes for a plain relay state
	if len(keys) == 0 {
		base, berr := c16BaselineSkeleton(c)
		if berr != nil {
			bad("page-structure-differs", "baseline page: %v", berr)
		} else if sk := c16Skeleton(toks, field); sk != base {
			bad("page-structure-differs", "page skeleton %s differs from the skeleton for a plain relay state %s", sk, base)
		}
	}
	msg, derr := base64.StdEncoding.DecodeString(message)
	switch {
	case derr != nil:
		bad("message-field-not-base64", "%v", derr)
	case docBytes != nil && string(msg) != string(docBytes):
		bad("message-field-differs-from-document", "decoded %d bytes != document %d bytes", len(msg), len(docBytes))
	case docBytes == nil:
		// BuildAuthBodyPost builds its own request: an AuthnRequest, signed exactly when configured
		n, pe := recipient.Parse(msg)
		if pe != nil || n.Local != "AuthnRequest" {
			bad("message-is-not-an-AuthnRequest", "%v", pe)
			break
		}
		hasSig := false
		for _, ch := range n.Children {
			if ch.Local == "Signature" {
				hasSig = true
			}
		}
		if hasSig != c.Sign {
			bad(fmt.Sprintf("posted-request-signed=%v-although-SignAuthnRequests=%v", hasSig, c.Sign), "")
		}
		if hasSig {
			reported, _ := sp.GetSigningCertBytes()
			rc, _ := x509.ParseCertificate(reported)
			d := etree.NewDocument()
			d.ReadFromBytes(msg)
			ctx := dsig.NewDefaultValidationContext(&dsig.MemoryX509CertificateStore{Roots: []*x509.Certificate{rc}})
			ctx.Clock = world.Clock(world.T0)
			if _, verr := ctx.Validate(d.Root()); verr != nil {
				bad("posted-request-signature-does-not-verify", "%v", verr)
			}
		}
	}
	if len(keys) > 0 {
		return dedupe(keys), detail, "DIFFERS"
	}
	if relay == "" {
		return nil, detail, "intact/no-relay-state"
	}
	return nil, detail, "intact/relay-state"
}

// c16Page is what a browser would make of the token stream, as far as the binding cares.
type c16Page struct {
	forms         int
	nested        bool
	action        string
	method        string
	message       []string // values of the inputs named SAMLRequest/SAMLResponse inside the form
	relay         []string // values of the inputs named RelayState inside the form
	fieldsOutside int      // inputs with one of the binding's names outside the form
	submits       bool
}

func c16ReadPage(toks []recipient.HTMLTok, field string) c16Page {
	var pg c16Page
	depth := 0
	for _, t := range toks {
		switch {
		case t.Kind == "start" && t.Name == "form":
			pg.forms++
			if depth > 0 {
				pg.nested = true
			}
			depth++
			for _, a := range t.Attrs {
				switch a.Name {
				case "action":
					pg.action = a.Value
				case "method":
					pg.method = a.Value
				}
			}
		case t.Kind == "end" && t.Name == "form":
			depth--
		case t.Kind == "start" && (t.Name == "input" || t.Name == "textarea" || t.Name == "button" || t.Name == "select"):
			name, value := "", ""
			for _, a := range t.Attrs {
				switch a.Name {
				case "name":
					name = a.Value
				case "value":
					value = a.Value
				}
			}
			binding := name == "SAMLRequest" || name == "SAMLResponse" || name == "RelayState" || name == "SigAlg" || name == "Signature"
			switch {
			case !binding:
			case depth != 1 || (name != field && name != "RelayState") || t.Name != "input":
				pg.fieldsOutside++
			case name == field:
				pg.message = append(pg.message, value)
			default:
				pg.relay = append(pg.relay, value)
			}
		case t.Kind == "script-text":
			if strings.Contains(t.Text, ".submit()") {
				pg.submits = true
			}
		}
	}
	return pg
}

// c16Skeleton is the token stream with the three values that legitimately vary removed (the
// form's action, the message field's value, the RelayState field's value); everything else,
// including attribute values, text and scripts, is kept verbatim.
func c16Skeleton(toks []recipient.HTMLTok, field string) string {
	var b strings.Builder
	for _, t := range toks {
		b.WriteString("[" + t.Kind + ":" + t.Name)
		name := ""
		for _, a := range t.Attrs {
			if a.Name == "name" {
				name = a.Value
			}
		}
		for _, a := range t.Attrs {
			v := a.Value
			if (t.Name == "form" && a.Name == "action") || (a.Name == "value" && (name == field || name == "RelayState")) {
				v = "*"
			}
			fmt.Fprintf(&b, " %s=%q", a.Name, v)
		}
		if t.Text != "" {
			fmt.Fprintf(&b, " %q", t.Text)
		}
		b.WriteString("]")
	}
	return b.String()
}

var c16Baselines sync.Map

func c16BaselineSkeleton(c c16Case) (string, error) {
	bc := c
	bc.Pad, bc.Rerender = 0, 0
	if c.relay() != "" {
		bc.Relay, bc.Frags = 1, nil // "plain"
	}
	key := fmt.Sprintf("%+v", bc)
	if v, ok := c16Baselines.Load(key); ok {
		return v.(string), nil
	}
	out, _, err, p := c16Build(world.SP(), bc)
	if err != nil || p != "" {
		return "", fmt.Errorf("err=%v panic=%q", err, p)
	}
	toks, terr := recipient.TokenizeHTML(string(out))
	if terr != nil {
		return "", terr
	}
	field := "SAMLRequest"
	if c16Builders[c.Builder] == "BuildLogoutResponseBodyPostFromDocument" {
		field = "SAMLResponse"
	}
	sk := c16Skeleton(toks, field)
	c16Baselines.Store(key, sk)
	return sk, nil
}

func c16Replay(raw json.RawMessage) ([]string, string) {
	var c c16Case
	if err := json.Unmarshal(raw, &c); err != nil {
		return nil, err.Error()
	}
	k, d, _ := c16Exec(c)
	return k, d
}

func c16Run(r *mc.Run) {
	r.Rule = "full product relay state(33: quotes, angle brackets, script and attribute-injection payloads, ampersands, character references, newline, U+2028, backtick, backslash, template syntax, plus, comment opener, NUL, lengths 80/81/82+/2090/4800 bytes with multi-byte characters across byte 80) x builder(4) x document(4: signed, unsigned, non-ASCII, assembled by the caller with default write settings; the document must be unchanged afterwards) x endpoint(2: plain, with & query) x document built under this or under the other endpoint x SignAuthnRequests(2, BuildAuthBodyPost), plus documents changed in place by the caller after a first page was made from them (an element added; the root replaced by its signed copy, same ID) and rendered again x builder(3) x document(4) x endpoint(2), plus documents padded to 20 sizes from 1 kB to 200 kB (both sides of every power of two up to 128 KiB, all residues mod 3) x builder(3) x document(4), plus relay states assembled from every sequence of 2 (quick) / 2-3 (thorough) of 28 injection fragments x builder(4); oracle = a strict HTML tokenizer (anything needing browser error recovery is rejected) and a reading of the page as a browser would: exactly one form, action = the endpoint, method POST, exactly one message field inside it = base64 of exactly the document, a RelayState field iff non-empty decoding to exactly the value, no binding field anywhere else, a script that submits; and the token skeleton (every tag, attribute, attribute value, text and script except those three values) equal to the skeleton of the page the same builder makes for a plain relay state, so that nothing else can depend on the relay state or the document. non-trivial = a page was produced and tokenized; distinct = distinct case"
	var cases []c16Case
	mc.Enumerate(-1, r.Expired, func(ch *mc.Chooser) {
		c := c16Case{}
		c.Builder = ch.Choose("builder", len(c16Builders))
		c.Relay = ch.Choose("relay", len(c16Relay))
		c.Endpoint = ch.Choose("endpoint", len(c16Endpoints))
		if c16Builders[c.Builder] == "BuildAuthBodyPost" {
			c.Sign = ch.Bool("sign")
		} else {
			c.Doc = ch.Choose("doc", len(c16Docs))
			c.DocElsewhere = ch.Bool("doc-elsewhere")
		}
		cases = append(cases, c)
	})
	// large documents
	nPad := 0
	for b := 1; b < len(c16Builders); b++ {
		for _, pad := range c16Pads {
			for d := range c16Docs {
				cases = append(cases, c16Case{Builder: b, Relay: 1 + (pad+d)%3, Doc: d, Endpoint: (pad + b) % 2, Pad: pad})
				nPad++
			}
		}
	}
	r.Set("large_document_cases", nPad)
	for b := 1; b < len(c16Builders); b++ {
		for rr := 1; rr <= 2; rr++ {
			for d := range c16Docs {
				for e := range c16Endpoints {
					cases = append(cases, c16Case{Builder: b, Relay: 1, Doc: d, Endpoint: e, Rerender: rr})
				}
			}
		}
	}
	// relay states assembled from fragments: every sequence of <= 2 (quick) / <= 3 (thorough)
	maxF := 2
	if r.Thorough() {
		maxF = 3
	}
	n0 := len(cases)
	var rec func(prefix []int)
	rec = func(prefix []int) {
		if len(prefix) >= 2 {
			for b := range c16Builders {
				cases = append(cases, c16Case{Builder: b, Frags: append([]int(nil), prefix...), Doc: len(prefix) % len(c16Docs), Endpoint: len(prefix) % 2})
			}
		}
		if len(prefix) == maxF {
			return
		}
		for f := range c16Fragments {
			rec(append(prefix, f))
		}
	}
	rec(nil)
	r.Set("fragment_sequences", (len(cases)-n0)/len(c16Builders))
	r.State(len(cases))
	r.Par(len(cases), func(i int) {
		c := cases[i]
		keys, detail, class := c16Exec(c)
		r.Eval(1)
		r.Transition(1)
		r.Bucket(class)
		if strings.HasPrefix(class, "intact") || class == "DIFFERS" {
			r.Nontrivial(fmt.Sprintf("%+v", c))
		}
		if i%97 == 0 {
			r.Sample(map[string]interface{}{"case": c, "observed": detail[:min(len(detail), 400)]})
		}
		for _, k := range keys {
			r.Violation(k, detail[:min(len(detail), 1500)], c)
		}
	})
}

func init() {
	register("C16", &check{run: c16Run, replay: c16Replay, quick: 200 * time.Second, thor: 600 * time.Second})
}
