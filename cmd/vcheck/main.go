// vcheck runs one property check: vcheck <Cxx> <quick|thorough>, or vcheck replay <file>.
package main

import (
	"encoding/json"
	"fmt"
	"os"
	"runtime/pprof"
	"sort"
	"strings"
	"time"

	"verif/mc"
)

type check struct {
	run    func(r *mc.Run)
	replay mc.ReplayFunc
	quick  time.Duration // internal deadlines; reaching one yields exhaustive:false, never an alarm
	thor   time.Duration
	level  string
}

var checks = map[string]*check{}

// extraCommands are hidden sub-commands (child-process bodies) registered by checks.
var extraCommands = map[string]func(args []string){}

func register(id string, c *check) { checks[id] = c }

func main() {
	if root := os.Getenv("VERIF_ROOT"); root != "" {
		mc.Root = root
	}
	if len(os.Args) < 3 {
		ids := []string{}
		for k := range checks {
			ids = append(ids, k)
		}
		sort.Strings(ids)
		fmt.Fprintf(os.Stderr, "usage: vcheck <%s> <quick|thorough> | vcheck replay <file>\n", strings.Join(ids, "|"))
		os.Exit(2)
	}
	if f, ok := extraCommands[os.Args[1]]; ok {
		f(os.Args[2:])
		os.Exit(0)
	}
	if os.Args[1] == "c09-struct" && len(os.Args) == 4 {
		var n int
		fmt.Sscan(os.Args[3], &n)
		c09StructChild(os.Args[2], n)
		os.Exit(0)
	}
	if os.Args[1] == "replay" {
		prop, key, c, err := mc.ReadReplay(os.Args[2])
		if err != nil {
			fmt.Println("cannot read replay:", err)
			os.Exit(2)
		}
		ck, ok := checks[prop]
		if !ok || ck.replay == nil {
			fmt.Println("no replay function for", prop)
			os.Exit(2)
		}
		keys, detail := ck.replay(c)
		fmt.Printf("replay property=%s recorded_key=%s\nobserved_keys=%v\n%s\n", prop, key, keys, detail)
		for _, k := range keys {
			if k == key {
				fmt.Printf("VIOLATION property=%s replay=%s\n", prop, os.Args[2])
				os.Exit(1)
			}
		}
		os.Exit(0)
	}
	id, tier := os.Args[1], os.Args[2]
	ck, ok := checks[id]
	if !ok {
		fmt.Fprintln(os.Stderr, "unknown property", id)
		os.Exit(2)
	}
	if tier != "quick" && tier != "thorough" {
		fmt.Fprintln(os.Stderr, "tier must be quick or thorough")
		os.Exit(2)
	}
	budget := ck.quick
	if tier == "thorough" {
		budget = ck.thor
	}
	if b := os.Getenv("VERIF_BUDGET_S"); b != "" {
		var s int
		fmt.Sscan(b, &s)
		budget = time.Duration(s) * time.Second
	}
	if pf := os.Getenv("VERIF_CPUPROFILE"); pf != "" {
		f, _ := os.Create(pf)
		pprof.StartCPUProfile(f)
		defer pprof.StopCPUProfile()
	}
	r := mc.NewRun(id, tier, budget, ck.replay)
	if ck.level != "" {
		r.Level = ck.level
	}
	ck.run(r)
	code := r.Finish()
	pprof.StopCPUProfile()
	os.Exit(code)
}

func mustJSON(v interface{}) json.RawMessage {
	b, err := json.Marshal(v)
	if err != nil {
		panic(err)
	}
	return b
}
