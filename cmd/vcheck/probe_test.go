package main

import (
	"fmt"
	"testing"

	"verif/idp"
	"verif/world"
)

func TestProbe(t *testing.T) {
	r := idp.DefaultResponse(1)
	a := &r.Assertions[0]
	a.AttrStatements = [][]idp.AttrSpec{{{Name: "a1", Values: []string{"v1"}}}, {{Name: "a2", Values: []string{"v2", "v3"}}}}
	a.NameID = "a\rb"
	r.Sign = idp.SignSpec{Key: "K1"}
	enc := idp.RenderResponse(r)
	info, cr := retrieveInfo(world.SPConf{Store: []string{"K1"}}.Build(), enc)
	fmt.Printf("%+v\n", cr)
	if info != nil {
		fmt.Printf("nameid=%q values=%v\n", info.NameID, info.Values)
	}
}
