package main

import (
	"crypto/tls"

	"encoding/json"
	"fmt"
	dsig "github.com/russellhaering/goxmldsig"
	"strings"
	"sync"

	saml2 "github.com/russellhaering/gosaml2"
	"time"

	"verif/idp"
	"verif/mc"
	"verif/oracle"
	"verif/world"
)

// C07 — encryption confers no trust; decryption is bound to the SP's own valid key.
//
// Part A rides on the attacker transition system (encrypt operator, X(.) tree labels): the
// pool and direct-child invariants of C01 apply to whatever is returned, plus the C07 keys
// raised in attJudge. Part B is the full product below.

type c07Case struct {
	Placement string `json:"placement"` // "response-signed" | "assertion-signed"
	Validate  bool   `json:"validate_enc_cert"`
	Clock     int    `json:"clock"`
	CertState string `json:"cert_state"`     // "", "empty", "garbage"
	Recip     string `json:"recipient_cert"` // "", "KS", "KX", "garbage"
	DataAlg   int    `json:"data_alg"`
	Detached  bool   `json:"detached_key,omitempty"`
	Setter    bool   `json:"key_through_setter,omitempty"` // SP key given through SetSPKeyStore only
	Custom    bool   `json:"custom_key_store,omitempty"`   // SPKeyStore field holds a key store of a custom type
	// Chain: the SPKeyStore field holds the SP certificate followed by a second certificate with a
	// wider validity window (a configured chain); only the SP certificate's own window counts
	Chain bool `json:"certificate_chain,omitempty"`
	// Both: the EncryptedAssertion carries an inline EncryptedKey (naming the recipient of the
	// case) and a second, detached EncryptedKey for the same content key that names nobody
	Both bool `json:"inline_and_detached_key,omitempty"`
	// Leaf: the tls.Certificate in the SPKeyStore field carries a parsed Leaf - a certificate for the
	// same key that is valid for ten hours either side - next to Certificate[0] (which is what
	// the provider publishes and what the recipient check compares against, and may be expired,
	// empty or garbage as the case says)
	Leaf bool `json:"tls_leaf_set,omitempty"`
}

func c07Spec(c c07Case, encrypted bool) idp.ResponseSpec {
	r := idp.DefaultResponse(1)
	uniq(&r, "c07")
	wideA, wideB := idp.TS(world.T0.Add(-3*time.Hour)), idp.TS(world.T0.Add(3*time.Hour))
	a := &r.Assertions[0]
	a.NotBefore, a.NotOnOrAfter, a.SCDNotOnOrAfter = wideA, wideB, wideB
	// signed with K2, whose certificate window is wider than the SP certificate's, so that
	// only the SP certificate window decides
	if c.Placement == "response-signed" {
		r.Sign = idp.SignSpec{Key: "K2"}
	} else {
		a.Sign = idp.SignSpec{Key: "K2"}
	}
	if encrypted {
		a.Encrypt = &idp.EncSpec{DataAlg: idp.AllDataAlgs[c.DataAlg], RecipCert: c.Recip}
		if c.Detached {
			a.Encrypt.Placement = "detached"
		}
		if c.Both {
			a.Encrypt.Placement = "both"
		}
	}
	return r
}

// c07RecipNear are near misses of the SP certificate as the named recipient: valid base64 of
// bytes that are not the SP certificate (must refuse), and the SP certificate itself in
// line-wrapped base64 (the same certificate).
var c07RecipNear = []string{"KS~caseswap", "KS~firstletter", "KS~truncated", "KS~trailing", "KS~bitflip", "KS~wrapped", "KX~wrapped", "KS~crlf"}

func c07RecipForeign(recip string) bool {
	switch recip {
	case "", "KS", "KS~wrapped", "KS~crlf":
		return false
	}
	return true
}

func c07Exec(c c07Case) (keys []string, detail, class string) {
	return c07ExecOn(c, nil)
}

// c07ExecOn judges the case on a fresh instance, or on live (one long-lived instance that is
// reconfigured in place: clock, validation option and key store reassigned between calls).
func c07ExecOn(c c07Case, live *saml2.SAMLServiceProvider) (keys []string, detail, class string) {
	ck := c02Clocks[c.Clock]
	conf := world.SPConf{Store: []string{"K2"}, ClockNs: int64(ck.Off), ValidateEncCert: c.Validate, EncCertState: c.CertState}
	if c.Setter {
		conf.EncField, conf.EncSetter = "-", "KS"
	}
	conf.PlainStores = c.Custom && !c.Setter
	enc := idp.RenderResponse(c07Spec(c, true))
	twin := idp.RenderResponse(c07Spec(c, false))
	sp := conf.Build()
	if c.Chain {
		sp.SPKeyStore = world.TLSKeyStoreChain("KS", "K2")
	}
	if c.Leaf {
		if ks, ok := sp.SPKeyStore.(dsig.TLSCertKeyStore); ok {
			tc := tls.Certificate(ks)
			tc.Leaf = world.CertWindow("KS", world.T0.Add(-10*time.Hour), world.T0.Add(10*time.Hour))
			sp.SPKeyStore = dsig.TLSCertKeyStore(tc)
		}
	}
	if live != nil {
		// only what differs from the previous call is touched: the key store is replaced only when
		// its certificate state changes (replacing it through the setter on every call would also
		// drop whatever the instance remembers about its key, and hide it)
		live.Clock = sp.Clock
		live.ValidateEncryptionCert = sp.ValidateEncryptionCert
		state := fmt.Sprintf("%v/%v/%s/%v/%v", c.Setter, c.Custom, c.CertState, c.Chain, c.Leaf)
		if prev, seen := c07LiveState.Load(live); !seen || prev.(string) != state {
			c07LiveState.Store(live, state)
			if c.Setter {
				live.SPKeyStore = nil
				ks := world.SetterKeyStore("KS")
				switch c.CertState {
				case "empty":
					ks.Cert = []byte{}
				case "garbage":
					ks.Cert = []byte("this is not a DER certificate")
				}
				if p := guard(func() { live.SetSPKeyStore(ks) }); p != "" {
					return []string{"C07/partB/panic"}, "SetSPKeyStore panicked: " + p, "panic"
				}
			} else {
				live.SPKeyStore = sp.SPKeyStore
			}
		}
		sp = live
	}
	resp, r := validateResponse(sp, enc)
	tresp, tr := validateResponse(conf.Build(), twin)
	detail = fmt.Sprintf("case=%+v clock=%s | encrypted: accepted=%v err=%q panic=%q | plaintext twin: accepted=%v err=%q", c, ck.Name, r.Accepted(), r.Err.Text, r.Panic, tr.Accepted(), tr.Err.Text)
	if r.Panic != "" {
		return []string{"C07/partB/panic"}, detail, "panic"
	}
	inWindow := ck.Off >= -time.Hour && ck.Off <= time.Hour
	mustRefuse := ""
	switch {
	case c07RecipForeign(c.Recip):
		mustRefuse = "recipient-certificate-differs-from-SP/" + c.Recip
	case c.Validate && c.CertState != "":
		mustRefuse = "validate-on/certificate-" + c.CertState
	case c.Validate && !inWindow:
		mustRefuse = "validate-on/clock-outside-SP-certificate-window/" + ck.Name
	}
	if mustRefuse != "" {
		if r.Accepted() {
			return []string{"C07/decryption-not-refused/" + mustRefuse}, detail, "must-refuse/ACCEPTED"
		}
		return nil, detail, "must-refuse/refused"
	}
	if c.CertState != "" {
		// option off and a broken certificate: the statement demands nothing (only: no panic)
		return nil, detail, "unspecified"
	}
	// twin equivalence
	if r.Accepted() != tr.Accepted() {
		return []string{fmt.Sprintf("C07/encrypted-differs-from-plaintext-twin/accepted=%v-twin=%v", r.Accepted(), tr.Accepted())}, detail, "twin-DIFFERS"
	}
	if r.Accepted() {
		a, b := oracle.FromResponse(resp), oracle.FromResponse(tresp)
		if a.Key() != b.Key() {
			return []string{"C07/encrypted-data-differs-from-plaintext-twin"}, detail, "twin-DIFFERS"
		}
		if resp.SignatureValidated != tresp.SignatureValidated || resp.Assertions[0].SignatureValidated != tresp.Assertions[0].SignatureValidated {
			return []string{"C07/encrypted-flags-differ-from-plaintext-twin"}, detail, "twin-DIFFERS"
		}
		return nil, detail, "twin-equal/accepted"
	}
	return nil, detail, "twin-equal/rejected"
}

// ---- two encrypted assertions in one Response: each is bound to the SP on its own ----

// c07Pair: both assertions are encrypted under ONE session key (as an IdP encrypting a whole
// Response would), each with its own EncryptedKey placement and recipient certificate.
type c07Pair struct {
	Pair      bool      `json:"pair"`
	Placement string    `json:"placement"` // response-signed | assertion-signed
	Det       [2]bool   `json:"detached"`
	Recip     [2]string `json:"recipient_cert"` // "", "KS", "KX"
	Setter    bool      `json:"key_through_setter,omitempty"`
}

func c07PairSpec(c c07Pair, encrypted bool) idp.ResponseSpec {
	r := idp.DefaultResponse(2)
	uniq(&r, "c07p")
	r.Assertions[1].NameID = "second-subject@example.com"
	for i := range r.Assertions {
		a := &r.Assertions[i]
		if c.Placement != "response-signed" {
			a.Sign = idp.SignSpec{Key: "K2"}
		}
		if encrypted {
			a.Encrypt = &idp.EncSpec{RecipCert: c.Recip[i], SessionKey: "one-key-for-the-response"}
			if c.Det[i] {
				a.Encrypt.Placement = "detached"
			}
		}
	}
	if c.Placement == "response-signed" {
		r.Sign = idp.SignSpec{Key: "K2"}
	}
	return r
}

func c07PairExec(c c07Pair) (keys []string, detail, class string) {
	conf := world.SPConf{Store: []string{"K2"}}
	if c.Setter {
		conf.EncField, conf.EncSetter = "-", "KS"
	}
	resp, r := validateResponse(conf.Build(), idp.RenderResponse(c07PairSpec(c, true)))
	tresp, tr := validateResponse(conf.Build(), idp.RenderResponse(c07PairSpec(c, false)))
	detail = fmt.Sprintf("case=%+v | encrypted: accepted=%v err=%q panic=%q | plaintext twin: accepted=%v err=%q", c, r.Accepted(), r.Err.Text, r.Panic, tr.Accepted(), tr.Err.Text)
	if r.Panic != "" {
		return []string{"C07/partB/panic"}, detail, "panic"
	}
	for i, rc := range c.Recip {
		if rc == "KX" {
			if r.Accepted() {
				return []string{fmt.Sprintf("C07/decryption-not-refused/recipient-certificate-differs-from-SP/assertion-%d-of-2", i+1)}, detail, "pair/must-refuse/ACCEPTED"
			}
			return nil, detail, "pair/must-refuse/refused"
		}
	}
	if !tr.Accepted() {
		return nil, "harness: plaintext twin rejected: " + detail, "harness-error"
	}
	if !r.Accepted() {
		return []string{"C07/encrypted-differs-from-plaintext-twin/accepted=false-twin=true"}, detail, "pair/twin-DIFFERS"
	}
	if oracle.FromResponse(resp).Key() != oracle.FromResponse(tresp).Key() {
		return []string{"C07/encrypted-data-differs-from-plaintext-twin"}, detail, "pair/twin-DIFFERS"
	}
	return nil, detail, "pair/twin-equal/accepted"
}

func c07Pairs() []c07Pair {
	var out []c07Pair
	mc.Enumerate(-1, nil, func(ch *mc.Chooser) {
		c := c07Pair{Pair: true}
		c.Placement = []string{"response-signed", "assertion-signed"}[ch.Choose("placement", 2)]
		for i := 0; i < 2; i++ {
			c.Det[i] = ch.Bool("detached")
			c.Recip[i] = []string{"", "KS", "KX"}[ch.Choose("recip", 3)]
		}
		c.Setter = ch.Bool("setter")
		out = append(out, c)
	})
	return out
}

// c07LiveState remembers, per long-lived instance, the key-store state last installed on it.
var c07LiveState sync.Map

type c07History struct {
	History []c07Case `json:"history"`
}

func c07Replay(raw json.RawMessage) ([]string, string) {
	var probe struct {
		Input string `json:"input"`
	}
	json.Unmarshal(raw, &probe)
	if probe.Input != "" {
		return attReplay("C07")(raw)
	}
	var pr c07Pair
	if json.Unmarshal(raw, &pr) == nil && pr.Pair {
		k, d, _ := c07PairExec(pr)
		return k, d
	}
	var h c07History
	if json.Unmarshal(raw, &h) == nil && len(h.History) > 0 {
		sp := world.SPConf{Store: []string{"K2"}}.Build()
		var keys []string
		var detail string
		for _, c := range h.History {
			keys, detail, _ = c07ExecOn(c, sp)
		}
		for i := range keys {
			keys[i] = strings.Replace(keys[i], "C07/", "C07/reconfigured-instance/", 1)
		}
		return keys, detail
	}
	var c c07Case
	if err := json.Unmarshal(raw, &c); err != nil {
		return nil, err.Error()
	}
	k, d, _ := c07Exec(c)
	return k, d
}

func c07Run(r *mc.Run) {
	r.Rule = "Part A: the attacker BFS and tree enumeration of C01 (encrypt operator over 8 algorithm/recipient variants at every assertion; X(G)/X(E) tree labels), judged by the pool and direct-child invariants. Part B: full product placement(2) x ValidateEncryptionCert(2) x clock position(11) x SP certificate state(3) x recipient certificate(4) x data algorithm(5) x EncryptedKey placement(2: inline, detached) x SP key API(4: SPKeyStore field as TLS, as TLS with a two-certificate chain whose second certificate outlives the SP's, as TLS with a parsed Leaf that is valid whatever Certificate[0] is, or as a custom key store type; SetSPKeyStore); an inline EncryptedKey naming each kind of recipient beside a detached EncryptedKey that names nobody; near misses of the SP certificate as named recipient (letter case of the base64 text, truncated, extended, one bit changed: refused; line-wrapped: the same certificate); plus Responses with two assertions encrypted under one session key, full product signing placement(2) x per assertion (EncryptedKey placement(2) x recipient certificate(3: none, the SP's, a foreign one)) x key API(2): refused iff either names a foreign certificate, else equal to the plaintext twin. non-trivial = decryption was attempted (an EncryptedAssertion reached the decrypt step) or the state was accepted; distinct = distinct (input, configuration)"
	r.Assume("RSA/ECDSA unforgeable", "the harness's own XML-Enc encryptor/decryptor (idp/enc.go)")
	var cases []c07Case
	n, _ := mc.Enumerate(-1, r.Expired, func(ch *mc.Chooser) {
		c := c07Case{}
		c.Placement = []string{"response-signed", "assertion-signed"}[ch.Choose("placement", 2)]
		c.Validate = ch.Bool("validate")
		c.Clock = ch.Choose("clock", len(c02Clocks))
		c.CertState = []string{"", "empty", "garbage"}[ch.Choose("certstate", 3)]
		c.Recip = []string{"", "KS", "KX", "garbage"}[ch.Choose("recip", 4)]
		c.DataAlg = ch.Choose("dataalg", len(idp.AllDataAlgs))
		c.Detached = ch.Bool("detached")
		c.Setter = ch.Bool("setter")
		if !c.Setter {
			c.Custom = ch.Bool("custom-key-store")
		}
		cases = append(cases, c)
		if !c.Setter && !c.Custom && c.CertState == "" {
			c.Chain = true
			cases = append(cases, c)
			c.Chain = false
		}
		if !c.Setter && !c.Custom && c.DataAlg < 2 {
			c.Leaf = true
			cases = append(cases, c)
		}
	})
	mc.Enumerate(-1, r.Expired, func(ch *mc.Chooser) {
		c := c07Case{Clock: 0} // mid-window
		c.Recip = c07RecipNear[ch.Choose("recip-near-miss", len(c07RecipNear))]
		c.Placement = []string{"response-signed", "assertion-signed"}[ch.Choose("placement", 2)]
		c.Validate = ch.Bool("validate")
		c.DataAlg = ch.Choose("dataalg", 2)
		c.Detached = ch.Bool("detached")
		c.Setter = ch.Bool("setter")
		if !c.Setter {
			c.Custom = ch.Bool("custom-key-store")
		}
		cases = append(cases, c)
	})
	r.Set("partB_choice_vectors", n)
	r.Set("partB_near_miss_recipient_cases", len(cases)-n)
	mc.Enumerate(-1, r.Expired, func(ch *mc.Chooser) {
		c := c07Case{Clock: 0, Both: true}
		c.Recip = []string{"", "KS", "KX", "garbage", "KS~caseswap"}[ch.Choose("recip", 5)]
		c.Placement = []string{"response-signed", "assertion-signed"}[ch.Choose("placement", 2)]
		c.Validate = ch.Bool("validate")
		c.DataAlg = ch.Choose("dataalg", 2)
		c.Setter = ch.Bool("setter")
		cases = append(cases, c)
	})
	r.Par(len(cases), func(i int) {
		c := cases[i]
		keys, detail, class := c07Exec(c)
		r.Eval(2)
		r.State(1)
		r.Transition(2)
		r.Bucket("partB/" + class)
		r.Nontrivial(fmt.Sprintf("%+v", c))
		if i%701 == 0 {
			r.Sample(map[string]interface{}{"case": c, "observed": detail})
		}
		for _, k := range keys {
			r.Violation(k, detail, c)
		}
	})
	pairs := c07Pairs()
	r.Set("partB_two_encrypted_assertions", len(pairs))
	r.Par(len(pairs), func(i int) {
		keys, detail, class := c07PairExec(pairs[i])
		r.Eval(2)
		r.State(1)
		r.Transition(2)
		r.Bucket("partB/" + class)
		r.Nontrivial(fmt.Sprintf("%+v", pairs[i]))
		if i%37 == 0 {
			r.Sample(map[string]interface{}{"case": pairs[i], "observed": detail})
		}
		for _, k := range keys {
			r.Violation(k, detail, pairs[i])
		}
	})
	// histories: for each (placement, recipient, algorithm) one live instance walks every
	// (option, clock, certificate state) in sequence; a decision must follow the configuration
	// in force at that call, not an earlier one (e.g. a cached key or certificate check)
	groups := map[string][]c07Case{}
	var order []string
	for _, c := range cases {
		k := fmt.Sprintf("%s/%s/%d/%v/%v/%v/%v/%v/%v", c.Placement, c.Recip, c.DataAlg, c.Detached, c.Setter, c.Custom, c.Chain, c.Both, c.Leaf)
		if _, ok := groups[k]; !ok {
			order = append(order, k)
		}
		groups[k] = append(groups[k], c)
	}
	r.Set("partB_reconfiguration_histories", len(order))
	r.Par(len(order), func(i int) {
		g := groups[order[i]]
		// two orders: as enumerated (valid configuration first) and reversed
		for pass := 0; pass < 2; pass++ {
			seq := append([]c07Case(nil), g...)
			if pass == 1 {
				for a, b := 0, len(seq)-1; a < b; a, b = a+1, b-1 {
					seq[a], seq[b] = seq[b], seq[a]
				}
			}
			sp := world.SPConf{Store: []string{"K2"}}.Build()
			for j, c := range seq {
				keys, detail, _ := c07ExecOn(c, sp)
				r.Eval(1)
				r.Bucket("partB/history-step")
				for _, k := range keys {
					k = strings.Replace(k, "C07/", "C07/reconfigured-instance/", 1)
					r.Violation(k, fmt.Sprintf("step %d of a history on one instance: %s", j, detail), c07History{History: seq[:j+1]})
				}
			}
		}
	})
	attExplore(r, "C07")
	treeExplore(r, "C07")
}

func c04Run(r *mc.Run) {
	r.Rule = "the attacker BFS and tree enumeration of C01 judged under 4 configurations (three stores + skip-signature) with the trust-indicator invariants: flag on Response => the returned Response equals field-for-field one the IdP signed; flag on assertion => that assertion carries its own honoured signature; unsigned root => every returned assertion flagged; skip => all flags false; summary flag = Response flag; plus the flag checks of C02's and C10's full products. non-trivial = accepted state; distinct = distinct (input, configuration)"
	r.Assume("RSA/ECDSA unforgeable")
	c04Logout(r)
	c04Enclosed(r)
	attExplore(r, "C04")
	treeExplore(r, "C04")
}

// c04Enclosed walks C02's product for the kind "Response genuinely signed, enclosed assertion
// carrying its own signature in every signer state": the assertion flag must not be set
// unless the assertion's own signature is honoured.
func c04Enclosed(r *mc.Run) {
	var cases []c02Case
	for s := range c02Signers {
		for st := range c02Stores {
			for _, ck := range []int{0, 6, 10} {
				for _, d := range []bool{false, true} {
					cases = append(cases, c02Case{Kind: "response-good+assertion-state", Signer: s, SName: c02Signers[s].Name,
						Conf: world.SPConf{Store: c02Stores[st], ClockNs: int64(c02Clocks[ck].Off)}, Clock: c02Clocks[ck].Name, Deflate: d})
				}
			}
		}
	}
	r.Par(len(cases), func(i int) {
		keys, detail := c02Exec(cases[i])
		r.Eval(1)
		r.State(1)
		r.Transition(1)
		r.Bucket("enclosed-assertion")
		for _, k := range keys {
			if strings.Contains(k, "flag") {
				r.Violation("C04/enclosed/"+strings.TrimPrefix(k, "C02/"), detail, cases[i])
			}
		}
	})
}

// c04Logout re-walks C10's full product and reports its trust-indicator findings under C04.
func c04Logout(r *mc.Run) {
	var cases []c10Case
	mc.Enumerate(-1, r.Expired, func(ch *mc.Chooser) {
		c := c10Case{}
		c.Kind = []string{"LogoutRequest", "LogoutResponse"}[ch.Choose("kind", 2)]
		c.Dest = ch.Choose("dest", 2)
		c.Issuer = ch.Choose("issuer", 2)
		if c.Kind == "LogoutResponse" {
			c.Status = ch.Choose("status", 2) * 3
		}
		c.Sign = ch.Choose("sign", len(c10Sign))
		c.Deflate = ch.Bool("deflate")
		c.SkipSig = ch.Bool("skip")
		c.NoIssuer = ch.Bool("noissuer")
		cases = append(cases, c)
	})
	r.Par(len(cases), func(i int) {
		c := cases[i]
		keys, detail, class := c10Exec(c)
		r.Eval(1)
		r.State(1)
		r.Transition(1)
		r.Bucket("logout/" + class)
		for _, k := range keys {
			if strings.Contains(k, "flag") || strings.Contains(k, "reported-as-validated") || strings.Contains(k, "returned-fields-differ") {
				r.Violation("C04/logout/"+strings.TrimPrefix(k, "C10/"), detail, c)
			}
		}
	})
}

func init() {
	register("C07", &check{run: c07Run, replay: c07Replay, quick: 420 * time.Second, thor: 1500 * time.Second})
	register("C04", &check{run: c04Run, replay: c04Replay, quick: 420 * time.Second, thor: 1500 * time.Second})
}

func c04Replay(raw json.RawMessage) ([]string, string) {
	var probe struct {
		Input string `json:"input"`
	}
	json.Unmarshal(raw, &probe)
	if probe.Input != "" {
		return attReplay("C04")(raw)
	}
	var c2 c02Case
	if json.Unmarshal(raw, &c2) == nil && c2.Kind == "response-good+assertion-state" {
		keys, detail := c02Exec(c2)
		var out []string
		for _, k := range keys {
			out = append(out, "C04/enclosed/"+strings.TrimPrefix(k, "C02/"))
		}
		return out, detail
	}
	var c c10Case
	if err := json.Unmarshal(raw, &c); err != nil {
		return nil, err.Error()
	}
	keys, detail, _ := c10Exec(c)
	var out []string
	for _, k := range keys {
		out = append(out, "C04/logout/"+strings.TrimPrefix(k, "C10/"))
	}
	return out, detail
}
