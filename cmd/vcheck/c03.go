package main

import (
	"encoding/base64"
	"encoding/json"
	"fmt"
	"regexp"
	"sort"
	"strings"
	"time"

	"github.com/russellhaering/gosaml2/types"

	"verif/idp"
	"verif/mc"
	"verif/world"
)

// C03 — acceptance implies every SSO profile check passed, for every assertion.
//
// Deviation-bounded choice-point DFS over a menu of profile faults placed on the Response and
// on every assertion position; oracle = the set V of violated checks computed from the spec:
// accept ⇔ V = ∅, and a rejection must be the typed error naming some member of V.

type c03Dims struct {
	N       int      `json:"n"`       // number of assertions (0..3)
	Version int      `json:"version"` // 0 ok, 1 "1.1", 2 absent
	Dest    int      `json:"dest"`    // 0 ok, 1 empty (allowed), 2 absent (allowed), 3 wrong
	Issuer  int      `json:"issuer"`  // 0 ok, 1 wrong, 2 absent
	Status  int      `json:"status"`  // 0 ok, 1 Status absent, 2 StatusCode absent, 3 non-success, 4 non-success with nested Success, 5 Success with nested second-level code
	A       [][4]int `json:"a"`       // per assertion: issuer(0 ok,1 wrong,2 absent), structure(0 ok,1 no Subject,2 no SubjectConfirmation,3 wrong Method,4 no SubjectConfirmationData), recipient(0 ok,1 wrong,2 absent), notOnOrAfter(0 ok,1 reached,2 absent,3 malformed,4 equal to the clock)
}

type c03Case struct {
	D   c03Dims `json:"dims"`
	Cfg int     `json:"cfg"` // 0 response-signed, 1 assertion-signed, 2 skip-signature; +3: no IdP issuer configured
	// Shadow: after signing, declarations of unused namespace prefixes named like the checked
	// attributes and holding the EXPECTED values are added behind the real attributes
	// (xmlns:Destination, xmlns:Version on the root, xmlns:Recipient and xmlns:NotOnOrAfter on
	// SubjectConfirmationData, xmlns:Value on StatusCode); they are not attributes
	Shadow bool `json:"xmlns_shadow,omitempty"`
	// Prefix: the prefix style of the message (idp.Layout.Prefix: 0 samlp/saml declared on the
	// root, 2 default namespaces only, so that no element declares a prefix of its own)
	Prefix int `json:"prefix_style,omitempty"`
	// ShadowBelow (with Shadow): the root start tag is left alone; only SubjectConfirmationData
	// and StatusCode get such declarations
	ShadowBelow bool `json:"xmlns_shadow_below_root_only,omitempty"`
}

var c03ShadowRe = regexp.MustCompile(`(<(?:\w+:)?SubjectConfirmationData[^>]*?)(/?>)`)
var c03ShadowStatusRe = regexp.MustCompile(`(<(?:\w+:)?StatusCode[^>]*?)(/?>)`)

func c03ShadowEdit(enc string, belowOnly ...bool) string {
	raw, err := base64.StdEncoding.DecodeString(enc)
	if err != nil {
		return enc
	}
	x := string(raw)
	gt := strings.Index(x, ">")
	if gt > 0 && x[gt-1] == '/' {
		gt--
	}
	if len(belowOnly) == 0 || !belowOnly[0] {
		x = x[:gt] + ` xmlns:Destination="` + world.ACS + `" xmlns:Version="2.0"` + x[gt:]
	}
	x = c03ShadowRe.ReplaceAllString(x, `${1} xmlns:Recipient="`+world.ACS+`" xmlns:NotOnOrAfter="2039-01-01T00:00:00Z"${2}`)
	x = c03ShadowStatusRe.ReplaceAllString(x, `${1} xmlns:Value="`+idp.StatusSuccess+`"${2}`)
	return base64.StdEncoding.EncodeToString([]byte(x))
}

var c03CfgNames = []string{"response-signed", "assertion-signed", "skip-signature", "response-signed/no-idp-issuer", "assertion-signed/no-idp-issuer", "skip-signature/no-idp-issuer", "response-signed/encrypted-assertions", "assertion-signed/encrypted-assertions", "skip-signature/encrypted-assertions", "skip-signature/encrypted-assertions/no-idp-issuer"}

// cfg 8 and 9: signature checking is off, so nothing is decrypted: the Response has no (plaintext)
// assertion whatever the EncryptedAssertion elements hold and must be rejected for that
func c03SkipEnc(cfg int) bool { return cfg >= 8 }

type c03Viol struct {
	What  string
	Names []string // acceptable values of the typed error's Key / Tag / Attribute
	Types []string
}

// c03NearMiss is the value with the letters of its path in the other case: equal under a
// case-insensitive comparison, different as the exact string the statement asks for.
func c03NearMiss(v string, kind ...int) string {
	if len(kind) > 0 && kind[0] == 1 {
		if strings.HasSuffix(v, "/") {
			return strings.TrimSuffix(v, "/")
		}
		return v + "/"
	}
	if len(kind) > 0 && kind[0] == 2 {
		return " " + v + "\n"
	}
	if len(kind) > 0 && kind[0] >= 3 {
		// the same URL as a URL library might see it, another string as the statement sees it
		i := strings.Index(v, "//")
		j := i + 2 + strings.Index(v[i+2:]+"/", "/")
		scheme, host, rest := v[:i+2], v[i+2:j], v[j:]
		switch kind[0] {
		case 3:
			return v + "?x=1"
		case 4:
			return v + "#fragment"
		case 5:
			return scheme + "user@" + host + rest
		case 6:
			return scheme + strings.ToUpper(host) + rest
		case 7:
			return scheme + host + ":443" + rest
		case 8:
			return scheme + host + "/." + rest
		case 9:
			if len(rest) > 1 {
				return scheme + host + rest[:1] + fmt.Sprintf("%%%02X", rest[1]) + rest[2:]
			}
			return v + "%20"
		}
	}
	i := strings.Index(v, "//")
	j := strings.Index(v[i+2:], "/")
	if i < 0 || j < 0 {
		return strings.ToUpper(v)
	}
	return v[:i+2+j] + strings.ToUpper(v[i+2+j:])
}

func c03Spec(d c03Dims, cfg int) idp.ResponseSpec {
	r := idp.DefaultResponse(d.N)
	switch d.Version {
	case 1:
		r.Version = "1.1"
	case 2:
		r.Version = idp.Absent
	}
	switch d.Dest {
	case 1:
		r.Destination = ""
	case 2:
		r.Destination = idp.Absent
	case 3:
		r.Destination = "https://evil.example.com/acs"
	case 4:
		r.Destination = c03NearMiss(world.ACS) // differs in letter case only
	case 5:
		r.Destination = c03NearMiss(world.ACS, 1) // differs by a trailing slash
	case 6:
		r.Destination = c03NearMiss(world.ACS, 2) // surrounded by whitespace
	}
	if d.Dest >= 7 {
		// 7..13: what a URL library would call the same URL (query, fragment, userinfo, host case,
		// default port, dot segment, percent-encoded letter)
		r.Destination = c03NearMiss(world.ACS, d.Dest-4)
	}
	if d.Issuer >= 6 {
		r.Issuer = c03NearMiss(world.IDPIssuer, d.Issuer-3)
	}
	switch d.Issuer {
	case 1:
		r.Issuer = "https://other-idp.example.com/metadata"
	case 2:
		r.Issuer = idp.Absent
	case 3:
		r.Issuer = c03NearMiss(world.IDPIssuer)
	case 4:
		r.Issuer = c03NearMiss(world.IDPIssuer, 1)
	case 5:
		r.Issuer = c03NearMiss(world.IDPIssuer, 2)
	}
	switch d.Status {
	case 1:
		r.Status = "nostatus"
	case 2:
		r.Status = "nocode"
	case 3:
		r.Status = "urn:oasis:names:tc:SAML:2.0:status:Requester"
	case 4:
		// a failure whose second-level code says Success: the top-level code decides
		r.Status = "urn:oasis:names:tc:SAML:2.0:status:Responder>" + idp.StatusSuccess
	case 5:
		// Success with a second-level code: conforming
		r.Status = idp.StatusSuccess + ">urn:oasis:names:tc:SAML:2.0:status:PartialLogout"
	}
	for i := 0; i < d.N; i++ {
		a := &r.Assertions[i]
		if d.A[i][0] >= 6 {
			a.Issuer = c03NearMiss(world.IDPIssuer, d.A[i][0]-3)
		}
		if d.A[i][2] >= 6 {
			a.Recipient = c03NearMiss(world.ACS, d.A[i][2]-3)
		}
		switch d.A[i][0] {
		case 1:
			a.Issuer = "https://other-idp.example.com/metadata"
		case 2:
			a.Issuer = idp.Absent
		case 3:
			a.Issuer = c03NearMiss(world.IDPIssuer)
		case 4:
			a.Issuer = c03NearMiss(world.IDPIssuer, 1)
		case 5:
			a.Issuer = c03NearMiss(world.IDPIssuer, 2)
		}
		switch d.A[i][1] {
		case 1:
			a.NoSubject = true
		case 2:
			a.NoSubjConf = true
		case 3:
			a.Method = "urn:oasis:names:tc:SAML:2.0:cm:holder-of-key"
		case 4:
			a.NoSCD = true
		}
		switch d.A[i][2] {
		case 1:
			a.Recipient = "https://evil.example.com/acs"
		case 2:
			a.Recipient = idp.Absent
		case 3:
			a.Recipient = c03NearMiss(world.ACS)
		case 4:
			a.Recipient = c03NearMiss(world.ACS, 1)
		case 5:
			a.Recipient = c03NearMiss(world.ACS, 2)
		}
		switch d.A[i][3] {
		case 1:
			a.SCDNotOnOrAfter = idp.TS(world.T0.Add(-time.Second))
		case 2:
			a.SCDNotOnOrAfter = idp.Absent
		case 3:
			a.SCDNotOnOrAfter = "next tuesday"
		case 4:
			a.SCDNotOnOrAfter = idp.TS(world.T0) // reached at this very instant
		case 5:
			// reached a minute ago, written with a fraction and a +05:30 offset (the local time reads later)
			a.SCDNotOnOrAfter = world.T0.Add(-time.Minute).In(time.FixedZone("", 5*3600+1800)).Format("2006-01-02T15:04:05.000-07:00")
		case 6:
			// a minute ahead, written with a fraction and a -08:00 offset (the local time reads earlier): conforming
			a.SCDNotOnOrAfter = world.T0.Add(time.Minute).In(time.FixedZone("", -8*3600)).Format("2006-01-02T15:04:05.000000-07:00")
		case 8:
			// the instant Go's zero time.Time denotes: expired for two thousand years
			a.SCDNotOnOrAfter = "0001-01-01T00:00:00Z"
		case 9:
			// the same instant written with an offset
			a.SCDNotOnOrAfter = "0001-01-01T05:30:00+05:30"
		case 7:
			// a complete timestamp followed by junk after the fraction
			a.SCDNotOnOrAfter = world.T0.Add(time.Hour).UTC().Format("2006-01-02T15:04:05") + ".soon"
		}
		if (cfg < 6 && cfg%3 == 1) || cfg == 7 {
			a.Sign = idp.SignSpec{Key: "K1"}
		}
		if cfg >= 6 {
			a.Encrypt = &idp.EncSpec{}
		}
	}
	if cfg == 0 || cfg == 3 || cfg == 6 {
		r.Sign = idp.SignSpec{Key: "K1"}
	}
	return r
}

// c03Model computes the violated checks from the dimensions (not from the bytes).
func c03Model(d c03Dims, cfg int) []c03Viol {
	issuerConfigured := cfg < 3 || (cfg >= 6 && cfg != 9)
	var v []c03Viol
	if d.Version != 0 {
		v = append(v, c03Viol{"Response Version", []string{"SAML version", "Version"}, []string{"ErrInvalidValue", "ErrMissingElement"}})
	}
	if d.Dest >= 3 {
		v = append(v, c03Viol{"Response Destination", []string{"Destination"}, []string{"ErrInvalidValue"}})
	}
	if d.Issuer == 2 {
		v = append(v, c03Viol{"Response Issuer absent", []string{"Issuer"}, []string{"ErrMissingElement"}})
	}
	if (d.Issuer == 1 || d.Issuer >= 3) && issuerConfigured {
		v = append(v, c03Viol{"Response Issuer wrong", []string{"Issuer"}, []string{"ErrInvalidValue"}})
	}
	switch d.Status {
	case 1:
		v = append(v, c03Viol{"Status absent", []string{"Status"}, []string{"ErrMissingElement"}})
	case 2:
		v = append(v, c03Viol{"StatusCode absent", []string{"StatusCode"}, []string{"ErrMissingElement"}})
	case 3, 4:
		v = append(v, c03Viol{"StatusCode not Success", []string{"StatusCode"}, []string{"ErrInvalidValue"}})
	}
	if d.N == 0 {
		v = append(v, c03Viol{"no assertion", []string{"Assertion"}, []string{"ErrMissingElement"}})
	}
	if c03SkipEnc(cfg) && d.N > 0 {
		return append(v, c03Viol{"no plaintext assertion", []string{"Assertion"}, []string{"ErrMissingElement"}})
	}
	for i := 0; i < d.N; i++ {
		a := d.A[i]
		pos := fmt.Sprintf("assertion[%d] ", i)
		if a[0] == 2 {
			v = append(v, c03Viol{pos + "Issuer absent", []string{"Issuer"}, []string{"ErrMissingElement"}})
		}
		if (a[0] == 1 || a[0] >= 3) && issuerConfigured {
			v = append(v, c03Viol{pos + "Issuer wrong", []string{"Issuer"}, []string{"ErrInvalidValue"}})
		}
		switch a[1] {
		case 1:
			v = append(v, c03Viol{pos + "Subject absent", []string{"Subject"}, []string{"ErrMissingElement"}})
			continue
		case 2:
			v = append(v, c03Viol{pos + "SubjectConfirmation absent", []string{"SubjectConfirmation"}, []string{"ErrMissingElement"}})
			continue
		case 3:
			v = append(v, c03Viol{pos + "Method not bearer", []string{"SubjectConfirmation", "Method"}, []string{"ErrInvalidValue"}})
		case 4:
			v = append(v, c03Viol{pos + "SubjectConfirmationData absent", []string{"SubjectConfirmationData"}, []string{"ErrMissingElement"}})
			continue
		}
		if a[2] != 0 {
			v = append(v, c03Viol{pos + "Recipient", []string{"Recipient"}, []string{"ErrInvalidValue", "ErrMissingElement"}})
		}
		switch a[3] {
		case 1, 4, 5, 8, 9:
			v = append(v, c03Viol{pos + "NotOnOrAfter reached", []string{"NotOnOrAfter"}, []string{"ErrInvalidValue"}})
		case 2:
			v = append(v, c03Viol{pos + "NotOnOrAfter absent", []string{"NotOnOrAfter"}, []string{"ErrMissingElement"}})
		case 3, 7:
			v = append(v, c03Viol{pos + "NotOnOrAfter malformed", []string{"NotOnOrAfter"}, []string{"ErrParsing"}})
		}
	}
	return v
}

func c03Conf(cfg int) world.SPConf {
	if c03SkipEnc(cfg) {
		return world.SPConf{Store: []string{"K1"}, SkipSig: true, NoIssuer: cfg == 9}
	}
	if cfg >= 6 {
		return world.SPConf{Store: []string{"K1"}}
	}
	return world.SPConf{Store: []string{"K1"}, SkipSig: cfg%3 == 2, NoIssuer: cfg >= 3}
}

// errNames returns the element/attribute names a typed error carries.
func errNames(e errInfo) []string {
	out := []string{}
	if e.Key != "" {
		out = append(out, e.Key)
	}
	if e.Attr != "" {
		out = append(out, e.Attr)
	}
	return out
}

func c03Match(e errInfo, v []c03Viol) bool {
	for _, x := range v {
		typeOK := false
		for _, t := range x.Types {
			if t == e.Type {
				typeOK = true
			}
		}
		if !typeOK {
			continue
		}
		for _, n := range errNames(e) {
			for _, w := range x.Names {
				if n == w {
					return true
				}
			}
		}
	}
	return false
}

func c03FaultClass(v []c03Viol) string {
	if len(v) == 0 {
		return "none"
	}
	names := []string{}
	for _, x := range v {
		w := x.What
		if i := strings.Index(w, "] "); i >= 0 {
			w = "assertion " + w[i+2:]
		}
		names = append(names, w)
	}
	sort.Strings(names)
	return strings.Join(names, "+")
}

func c03Exec(c c03Case) (keys []string, detail string, class string) {
	spec := c03Spec(c.D, c.Cfg)
	spec.Layout.Prefix = c.Prefix
	enc := idp.RenderResponse(spec)
	if c.Shadow {
		enc = c03ShadowEdit(enc, c.ShadowBelow)
	}
	v := c03Model(c.D, c.Cfg)
	conf := c03Conf(c.Cfg)
	_, r1 := validateResponse(conf.Build(), enc)
	_, r2 := retrieveInfo(conf.Build(), enc)
	whats := []string{}
	for _, x := range v {
		whats = append(whats, x.What)
	}
	detail = fmt.Sprintf("cfg=%s dims=%+v violated(model)=%v | ValidateEncodedResponse: accepted=%v err=%s/%s/%s %q panic=%q | RetrieveAssertionInfo: accepted=%v err=%s/%s %q wrapped=%v",
		c03CfgNames[c.Cfg], c.D, whats, r1.Accepted(), r1.Err.Type, r1.Err.Key, r1.Err.Attr, r1.Err.Text, r1.Panic, r2.Accepted(), r2.Err.Type, r2.Err.Key, r2.Err.Text, r2.Err.Wrapped)
	fc := c03FaultClass(v)
	results := []callResult{r1, r2}
	if (c.Cfg < 6 || c03SkipEnc(c.Cfg)) && !c.Shadow { // (with shadow declarations the caller's own decoding is the caller's business)
		// third entry point: the exported Validate on a Response the caller decoded itself
		// (encoding/xml into types.Response, nothing decrypted, signatures not looked at)
		raw, _ := base64.StdEncoding.DecodeString(enc)
		decoded := &types.Response{}
		if e := xmlUnmarshal(raw, decoded); e == nil {
			var verr error
			sp := conf.Build()
			p := guard(func() { verr = sp.Validate(decoded) })
			r3 := callResult{Panic: p, Err: describeErr(verr)}
			results = append(results, r3)
			detail += fmt.Sprintf(" | Validate(decoded struct): accepted=%v err=%s/%s %q panic=%q", r3.Accepted(), r3.Err.Type, r3.Err.Key, r3.Err.Text, p)
		}
	}
	for i, r := range results {
		ep := []string{"ValidateEncodedResponse", "RetrieveAssertionInfo", "Validate"}[i]
		switch {
		case r.Panic != "":
			keys = append(keys, fmt.Sprintf("C03/%s/%s/panic/%s", ep, c03CfgNames[c.Cfg], fc))
		case len(v) == 0 && !r.Accepted():
			keys = append(keys, fmt.Sprintf("C03/%s/%s/conforming-response-rejected/dest=%d", ep, c03CfgNames[c.Cfg], c.D.Dest))
		case len(v) > 0 && r.Accepted():
			keys = append(keys, fmt.Sprintf("C03/%s/%s/accepted-despite/%s", ep, c03CfgNames[c.Cfg], fc))
		case len(v) > 0 && !c03Match(r.Err, v):
			keys = append(keys, fmt.Sprintf("C03/%s/%s/error-does-not-name-violation/%s/got=%s:%s", ep, c03CfgNames[c.Cfg], fc, r.Err.Type, r.Err.Key))
		case len(v) > 0 && i == 1 && !r.Err.Wrapped:
			// the statement: reported through the typed error; RetrieveAssertionInfo wraps validation errors in ErrVerification
		}
	}
	class = "conforming/accepted"
	if len(v) > 0 {
		class = "faulty/rejected:" + r1.Err.Type
	}
	if (len(v) == 0) != r1.Accepted() {
		class = "DISAGREE"
	}
	return keys, detail, class
}

// ---- sequences: a faulty response right after a delivery that failed half way through decoding ----

// c03Seq: a "poison" delivery (a Response whose assertion carries everything the profile asks
// for but then fails to decode: an unparsable AuthnInstant, SessionNotOnOrAfter, ProxyRestriction
// Count or assertion IssueInstant; plain or encrypted, Response- or assertion-signed) is rejected;
// the next delivery in the same process is a single-fault (or conforming) response, judged by
// the same model as every other case: whatever the failed decode left behind must not stand
// in for what the next message lacks.
type c03Seq struct {
	Seq    bool    `json:"sequence"`
	Poison int     `json:"poison"`     // index into c03PoisonFaults
	PCfg   int     `json:"poison_cfg"` // 0 response-signed, 1 assertion-signed, 6/7 the same encrypted
	Target c03Case `json:"target"`
}

var c03PoisonFaults = []string{"AuthnInstant unparsable", "SessionNotOnOrAfter unparsable", "ProxyRestriction Count not a number", "assertion IssueInstant unparsable"}
var c03PoisonCfgs = []int{0, 1, 6, 7}

func c03SeqPoison(fault, cfg int) string {
	spec := c03Spec(c03Dims{N: 1, A: [][4]int{{0, 0, 0, 0}}}, cfg)
	a := &spec.Assertions[0]
	a.ID, a.NameID = "_poison-assertion", evilName
	switch fault {
	case 0:
		a.AuthnInstant = "yesterday"
	case 1:
		a.SessionNotOnOrAfter = "never"
	case 2:
		a.Proxy = &idp.ProxySpec{Count: "many"}
	case 3:
		a.IssueInstant = "yesterday"
	}
	enc := idp.RenderResponse(spec)
	_, r := validateResponse(c03Conf(cfg).Build(), enc)
	return fmt.Sprintf("accepted=%v err=%.80q", r.Accepted(), r.Err.Text)
}

func c03SeqTargets() []c03Case {
	var out []c03Case
	for _, cfg := range c03PoisonCfgs {
		base := [4]int{0, 0, 0, 0}
		out = append(out, c03Case{D: c03Dims{N: 1, A: [][4]int{base}}, Cfg: cfg})
		for dim, n := range []int{6, 5, 6, 5} {
			for v := 1; v < n; v++ {
				a := base
				a[dim] = v
				out = append(out, c03Case{D: c03Dims{N: 1, A: [][4]int{a}}, Cfg: cfg})
			}
		}
	}
	return out
}

func c03SeqExec(q c03Seq) (keys []string, detail string) {
	p := c03SeqPoison(q.Poison, q.PCfg)
	k, d, _ := c03Exec(q.Target)
	for _, x := range k {
		keys = append(keys, strings.Replace(x, "C03/", "C03/after-a-delivery-that-failed-to-decode/", 1))
	}
	return keys, fmt.Sprintf("after a %s delivery with %s (%s): %s", c03CfgNames[q.PCfg], c03PoisonFaults[q.Poison], p, d)
}

func c03SeqRun(r *mc.Run) {
	targets := c03SeqTargets()
	n := 0
	for pf := range c03PoisonFaults {
		for _, pc := range c03PoisonCfgs {
			for _, t := range targets {
				if r.Expired() {
					r.Cap("sequence phase stopped by deadline")
					r.Set("poison_then_fault_sequences", n)
					return
				}
				q := c03Seq{Seq: true, Poison: pf, PCfg: pc, Target: t}
				keys, detail := c03SeqExec(q)
				n++
				r.Eval(3)
				r.State(1)
				r.Transition(3)
				r.Bucket("sequence")
				for _, k := range keys {
					r.Violation(k, detail, q)
				}
			}
		}
	}
	r.Set("poison_then_fault_sequences", n)
}

func c03Replay(raw json.RawMessage) ([]string, string) {
	var q c03Seq
	if json.Unmarshal(raw, &q) == nil && q.Seq {
		return c03SeqExec(q)
	}
	var c c03Case
	if err := json.Unmarshal(raw, &c); err != nil {
		return nil, err.Error()
	}
	k, d, _ := c03Exec(c)
	return k, d
}

func c03Gen(n int) func(c *mc.Chooser) c03Dims {
	return func(c *mc.Chooser) c03Dims {
		d := c03Dims{N: n}
		d.Version = c.Choose("version", 3)
		d.Dest = c.Choose("dest", 7)
		d.Issuer = c.Choose("issuer", 6)
		d.Status = c.Choose("status", 6)
		for i := 0; i < n; i++ {
			var a [4]int
			a[0] = c.Choose(fmt.Sprintf("a%d.issuer", i), 6)
			a[1] = c.Choose(fmt.Sprintf("a%d.structure", i), 5)
			a[2] = c.Choose(fmt.Sprintf("a%d.recipient", i), 6)
			a[3] = c.Choose(fmt.Sprintf("a%d.notonorafter", i), 5)
			d.A = append(d.A, a)
		}
		return d
	}
}

func c03Cases(thorough bool, stop func() bool) (cases []c03Case, shapes int, bounds map[int]int, complete bool) {
	bounds = map[int]int{0: 2, 1: 2, 2: 2, 3: 1}
	if thorough {
		bounds = map[int]int{0: 4, 1: 3, 2: 3, 3: 3}
	}
	complete = true
	var dims []c03Dims
	for n := 0; n <= 3; n++ {
		g := c03Gen(n)
		_, ok := mc.Enumerate(bounds[n], stop, func(c *mc.Chooser) { dims = append(dims, g(c)) })
		if !ok {
			complete = false
		}
	}
	// URL-equivalent spellings of every compared URL, one at a time, on one assertion and on the
	// second of two
	for nm := 3; nm <= 9; nm++ {
		for n := 1; n <= 2; n++ {
			base := func() c03Dims {
				d := c03Dims{N: n}
				for i := 0; i < n; i++ {
					d.A = append(d.A, [4]int{})
				}
				return d
			}
			d1, d2, d3, d4 := base(), base(), base(), base()
			d1.Dest, d2.Issuer = nm+4, nm+3
			d3.A[n-1][0], d4.A[n-1][2] = nm+3, nm+3
			dims = append(dims, d1, d2, d3, d4)
		}
	}
	// deadlines written with fractions and zone offsets, on one assertion and on either of two
	for nooa := 5; nooa <= 9; nooa++ {
		for n := 1; n <= 3; n++ {
			for at := 0; at < n; at++ {
				d := c03Dims{N: n}
				for i := 0; i < n; i++ {
					d.A = append(d.A, [4]int{})
				}
				d.A[at][3] = nooa
				dims = append(dims, d)
			}
		}
	}
	for _, d := range dims {
		for cfg := 0; cfg < len(c03CfgNames); cfg++ {
			cases = append(cases, c03Case{D: d, Cfg: cfg})
			if cfg < 3 {
				cases = append(cases, c03Case{D: d, Cfg: cfg, Shadow: true})
				if d.N <= 1 || cfg == 2 {
					cases = append(cases, c03Case{D: d, Cfg: cfg, Shadow: true, Prefix: 2})
					cases = append(cases, c03Case{D: d, Cfg: cfg, Shadow: true, Prefix: 2, ShadowBelow: true})
				}
			}
		}
	}
	return cases, len(dims), bounds, complete
}

func c03Run(r *mc.Run) {
	r.Rule = "deviation-bounded DFS over profile-fault dimensions (Response: version, destination, issuer, status; per assertion position: issuer, subject structure, recipient, NotOnOrAfter; every compared URL also in 7 spellings a URL library would call the same URL, one at a time; the bearer deadline also written with a fraction and a zone offset, reached and not, as a timestamp followed by junk, and as the year-1 instant that is Go's zero time, at every position of up to three assertions) for n=0..3 assertions x 10 configurations (Response-signed, assertion-signed, skip-signature, each with and without a configured IdP issuer; Response- and assertion-signed with every assertion encrypted; skip-signature with every assertion encrypted, where nothing is decrypted and the Response must be rejected for having no assertion, with and without a configured issuer) (the first three configurations also with declarations of unused namespace prefixes named like the checked attributes, holding the expected values, added after signing, to messages with prefixed names and to messages that use default namespaces only, there also with the root start tag left alone) x 3 entry points (ValidateEncodedResponse, RetrieveAssertionInfo, and the exported Validate on a types.Response the caller decoded with encoding/xml), each case judged on fresh instances and again, in sequence on one goroutine, on long-lived instances (one per configuration); non-trivial = the document got past decoding and signature processing into the profile validation (error is nil or a typed validation error); distinct = distinct (dims,cfg)"
	cases, shapes, bounds, complete := c03Cases(r.Thorough(), r.Expired)
	if !complete {
		r.Cap("enumeration stopped by deadline")
	}
	r.Set("deviation_bound_by_n", fmt.Sprint(bounds))
	r.Set("shapes", shapes)
	r.State(shapes)
	fresh := make([]string, len(cases))
	r.Par(len(cases), func(i int) {
		c := cases[i]
		keys, detail, class := c03Exec(c)
		fresh[i] = sig(keys, class)
		r.Eval(2)
		r.Transition(2)
		r.Bucket(class)
		if !strings.Contains(detail, "ValidateEncodedResponse: accepted=false err=*errors") {
			r.Nontrivial(fmt.Sprintf("%+v/%d/%v/%d/%v", c.D, c.Cfg, c.Shadow, c.Prefix, c.ShadowBelow))
		}
		if i%997 == 0 {
			r.Sample(map[string]interface{}{"case": c, "observed": detail})
		}
		for _, k := range keys {
			r.Violation(k, detail, c)
		}
	})
	c03SeqRun(r)
	stride := 3 // co-prime with the number of configurations: every configuration is visited
	if r.Thorough() {
		stride = 9
	}
	livePass(r, len(cases), stride, 90*time.Second, func(i int) string {
		keys, _, class := c03Exec(cases[i])
		return sig(keys, class)
	}, fresh)
}

var c03CaseMemo = map[string][]c03Case{}

func c03ReplayAll(raw json.RawMessage) ([]string, string) {
	get := func(tier string) []c03Case {
		if c, ok := c03CaseMemo[tier]; ok {
			return c
		}
		c, _, _, _ := c03Cases(tier == "thorough", nil)
		c03CaseMemo[tier] = c
		return c
	}
	if keys, detail, ok := liveReplay(raw, "C03", func(t string) int { return len(get(t)) }, func(t string, i int) string {
		k, _, class := c03Exec(get(t)[i])
		return sig(k, class)
	}); ok {
		return keys, detail
	}
	return c03Replay(raw)
}

func init() {
	register("C03", &check{run: c03Run, replay: c03ReplayAll, quick: 240 * time.Second, thor: 900 * time.Second})
}
