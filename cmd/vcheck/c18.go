//go:build sched

package main

import (
	"bytes"
	"crypto/rand"
	"crypto/sha256"
	"encoding/hex"
	"encoding/json"
	"errors"
	"fmt"
	"go/parser"
	"go/token"
	"io"
	"os"
	"regexp"
	"strings"
	"sync"
	"time"

	"github.com/beevik/etree"
	saml2 "github.com/russellhaering/gosaml2"
	"github.com/russellhaering/gosaml2/uuid"
	"github.com/russellhaering/gosaml2/vsched"

	"verif/mc"
	"verif/world"
)

// C18 — message identifiers are unique, unpredictable and valid XML IDs.
//
// The random source is an environment the harness owns: crypto/rand.Reader is replaced by a
// recording reader (uuid.NewV4 calls rand.Read = io.ReadFull(rand.Reader, ...)).

func repoDir() string {
	if d := os.Getenv("VERIF_REPO"); d != "" {
		return d
	}
	return "/repo"
}

var c18IDRe = regexp.MustCompile(`^_[0-9a-f]{8}-[0-9a-f]{4}-4[0-9a-f]{3}-[89ab][0-9a-f]{3}-[0-9a-f]{12}$`)

type c18Draw struct {
	Thread int
	Bytes  []byte
}

type c18Reader struct {
	mu    sync.Mutex
	fixed []byte // when set, every draw returns these bytes
	n     int
	draws []c18Draw
	chunk int // when > 0, a Read hands out at most this many bytes (a reader may return short)
	// failFor > 0: the first failFor reads fail with an error (and fill nothing); failFor < 0: every read fails
	failFor int
	reads   int
}

func (r *c18Reader) Read(p []byte) (int, error) {
	r.mu.Lock()
	defer r.mu.Unlock()
	r.reads++
	if r.failFor < 0 || r.reads <= r.failFor {
		return 0, errors.New("random source unavailable")
	}
	var b []byte
	if r.fixed != nil {
		b = r.fixed
	} else {
		h := sha256.Sum256([]byte(fmt.Sprintf("draw-%d", r.n)))
		b = h[:]
	}
	r.n++
	if r.chunk > 0 && len(p) > r.chunk {
		p = p[:r.chunk]
	}
	n := copy(p, b)
	for n < len(p) {
		n += copy(p[n:], b)
	}
	r.draws = append(r.draws, c18Draw{Thread: vsched.Current(), Bytes: append([]byte(nil), p...)})
	return len(p), nil
}

var c18Mu sync.Mutex

// withReader swaps crypto/rand.Reader for the duration of f.
func withReader(r io.Reader, f func()) {
	c18Mu.Lock()
	defer c18Mu.Unlock()
	old := rand.Reader
	rand.Reader = r
	defer func() { rand.Reader = old }()
	f()
}

func canonicalV4(b []byte) string {
	x := append([]byte(nil), b[:16]...)
	x[6] = (x[6] & 0x0f) | 0x40
	x[8] = (x[8] & 0x3f) | 0x80
	h := hex.EncodeToString(x)
	return h[0:8] + "-" + h[8:12] + "-" + h[12:16] + "-" + h[16:20] + "-" + h[20:32]
}

var c18Builders = []string{"AuthnRequest", "LogoutRequest", "LogoutResponse"}

func c18Build(sp *saml2.SAMLServiceProvider, b int) (id string, err error) {
	var doc *etree.Document
	switch c18Builders[b] {
	case "AuthnRequest":
		doc, err = sp.BuildAuthRequestDocumentNoSig()
	case "LogoutRequest":
		doc, err = sp.BuildLogoutRequestDocumentNoSig("alice@example.com", "_s")
	case "LogoutResponse":
		doc, err = sp.BuildLogoutResponseDocumentNoSig(saml2.StatusCodeSuccess, "_r")
	}
	if err != nil {
		return "", err
	}
	return doc.Root().SelectAttrValue("ID", ""), nil
}

type c18Case struct {
	Kind     string `json:"kind"` // "bits" | "history" | "schedule"
	Pattern  []byte `json:"pattern,omitempty"`
	History  []int  `json:"history,omitempty"` // builder*2 + sp index
	Schedule []int  `json:"schedule,omitempty"`
	Pair     []int  `json:"pair,omitempty"`
}

// c18CryptoRandOnly reports (static, supporting) whether the uuid package draws from
// crypto/rand and does not import math/rand.
func c18CryptoRandOnly() bool {
	f, err := parser.ParseFile(token.NewFileSet(), repoDir()+"/uuid/uuid.go", nil, parser.ImportsOnly)
	if err != nil {
		return true
	}
	crypto, math := false, false
	for _, im := range f.Imports {
		switch strings.Trim(im.Path.Value, `"`) {
		case "crypto/rand":
			crypto = true
		case "math/rand", "math/rand/v2":
			math = true
		}
	}
	return crypto && !math
}

// c18JudgeIDs checks the identifiers against the stream of bytes the owned random source
// handed out: every ID is '_' + the canonical v4 rendering of a 16-byte window of that stream,
// windows of different IDs do not overlap (no byte of the source is used twice), and no ID
// repeats. An ID that cannot be traced to the stream (bytes drawn before the harness owned
// the source, e.g. a buffer filled at package initialisation) is a violation only when the
// generator does not draw from crypto/rand at all; otherwise uniqueness over long histories
// is what remains checkable.
func c18JudgeIDs(ids []string, draws []c18Draw) (keys []string, detail string) {
	var stream []byte
	for _, d := range draws {
		stream = append(stream, d.Bytes...)
	}
	detail = fmt.Sprintf("ids=%d (first %v) reads=%d stream=%d bytes", len(ids), ids[:min(len(ids), 3)], len(draws), len(stream))
	windows := map[string][]int{}
	for o := 0; o+16 <= len(stream); o++ {
		k := canonicalV4(stream[o : o+16])
		windows[k] = append(windows[k], o)
	}
	seen := map[string]int{}
	type span struct{ off, id int }
	var used []span
	untraceable := 0
	for i, id := range ids {
		if !c18IDRe.MatchString(id) {
			keys = append(keys, "C18/id-not-underscore-plus-canonical-v4-uuid")
			detail += fmt.Sprintf(" | message %d id %q", i, id)
			continue
		}
		if j, dup := seen[id]; dup {
			keys = append(keys, "C18/duplicate-id")
			detail += fmt.Sprintf(" | message %d repeats the id of message %d: %s", i, j, id)
			continue
		}
		seen[id] = i
		offs := windows[id[1:]]
		if len(offs) == 0 {
			untraceable++
			continue
		}
		// take the first window that does not overlap one already used
		ok := false
		for _, o := range offs {
			clash := false
			for _, u := range used {
				if o < u.off+16 && u.off < o+16 {
					clash = true
				}
			}
			if !clash {
				used = append(used, span{o, i})
				ok = true
				break
			}
		}
		if !ok {
			keys = append(keys, "C18/random-bytes-reused-by-two-ids")
			detail += fmt.Sprintf(" | message %d shares source bytes with another message", i)
		}
	}
	if untraceable > 0 {
		detail += fmt.Sprintf(" | %d ids not traceable to the owned source", untraceable)
		if !c18CryptoRandOnly() {
			keys = append(keys, "C18/id-bytes-not-from-crypto-rand")
		}
	}
	return dedupe(keys), detail
}

func c18Exec(c c18Case) (keys []string, detail string) {
	switch c.Kind {
	case "bits":
		var got string
		var p string
		rd := &c18Reader{fixed: c.Pattern}
		withReader(rd, func() { p = guard(func() { got = uuid.NewV4().String() }) })
		want := canonicalV4(c.Pattern)
		detail = fmt.Sprintf("source=%x uuid=%s want=%s reads=%d", c.Pattern, got, want, len(rd.draws))
		if p != "" {
			return []string{"C18/uuid/panic"}, detail + " panic " + p
		}
		if !regexp.MustCompile(`^[0-9a-f]{8}-[0-9a-f]{4}-4[0-9a-f]{3}-[89ab][0-9a-f]{3}-[0-9a-f]{12}$`).MatchString(got) {
			return []string{"C18/uuid/not-canonical-v4-form"}, detail
		}
		if len(rd.draws) == 0 {
			// the generator did not consult the source during this call (e.g. it serves from a
			// buffer filled earlier): the bit pass-through cannot be observed here, and is not judged
			if !c18CryptoRandOnly() {
				return []string{"C18/id-bytes-not-from-crypto-rand"}, detail
			}
			return nil, detail + " (not observable)"
		}
		// the source answered with the pattern repeated: the UUID must be a 16-byte window of that
		// answer with exactly the six version/variant bits forced
		var stream []byte
		for _, d := range rd.draws {
			stream = append(stream, d.Bytes...)
		}
		for o := 0; o+16 <= len(stream); o++ {
			if canonicalV4(stream[o:o+16]) == got {
				return nil, detail
			}
		}
		return []string{"C18/uuid/not-the-source-bytes-with-version-and-variant-forced"}, detail
	case "message-bits":
		// one message of each kind while the source answers with the pattern: the ID is '_' + the
		// v4 rendering whatever the leading hex digits are
		rd := &c18Reader{fixed: c.Pattern}
		if len(c.History) > 1 {
			rd = &c18Reader{chunk: c.History[1]} // distinct answers, handed out a few bytes at a time
		}
		var id string
		var err error
		withReader(rd, func() { id, err = c18Build(world.SP(), c.History[0]) })
		keys, detail = c18JudgeIDs([]string{id}, rd.draws)
		if err != nil {
			keys = append(keys, "C18/builder-error")
		}
		// the source was consulted during this very call: the ID must be the rendering of 16 of
		// the bytes it handed out (a generator that settles for a short read is not)
		if len(rd.draws) > 0 && strings.Contains(detail, "not traceable to the owned source") {
			keys = append(keys, "C18/id-not-made-of-16-bytes-of-the-source")
		}
		return dedupe(keys), fmt.Sprintf("builder=%d source=%x id=%q %s", c.History[0], c.Pattern, id, detail)
	case "failing-source":
		// the random source fails (History[1] reads in a row, or always when negative): whatever
		// the builder does about it - an error, a panic, a later successful draw - no message may
		// leave with an ID that is not made of 16 bytes the source handed out
		rd := &c18Reader{failFor: c.History[1]}
		var id string
		var err error
		p := guard(func() { withReader(rd, func() { id, err = c18Build(world.SP(), c.History[0]) }) })
		detail = fmt.Sprintf("builder=%d failing reads=%d | id=%q err=%v panic=%.80q draws=%d", c.History[0], c.History[1], id, err, p, len(rd.draws))
		if id == "" {
			return nil, detail // no message was issued
		}
		k2, d2 := c18JudgeIDs([]string{id}, rd.draws)
		if len(rd.draws) == 0 || len(k2) > 0 || strings.Contains(d2, "not traceable to the owned source") {
			return []string{"C18/id-issued-although-the-random-source-failed"}, detail + " | " + d2
		}
		return nil, detail
	case "history":
		sps := []*saml2.SAMLServiceProvider{world.SP(), world.SP()}
		rd := &c18Reader{}
		var ids []string
		var errs []string
		withReader(rd, func() {
			for _, h := range c.History {
				id, err := c18Build(sps[h%2], h/2)
				if err != nil {
					errs = append(errs, err.Error())
				}
				ids = append(ids, id)
			}
		})
		keys, detail = c18JudgeIDs(ids, rd.draws)
		if len(errs) > 0 {
			keys = append(keys, "C18/builder-error")
		}
		return keys, fmt.Sprintf("history=%v %s", c.History, detail)
	case "schedule":
		var ks []string
		mc.Replay(c.Schedule, func(ch *mc.Chooser) { ks, detail, _ = c18Sched(c.Pair, ch) })
		return ks, detail
	}
	return nil, ""
}

// c18Sched builds two messages on two managed goroutines (shared or separate SP) under the
// controlled scheduler.
func c18Sched(pair []int, ch *mc.Chooser) (keys []string, detail string, res vsched.Result) {
	shared := world.SP()
	sps := []*saml2.SAMLServiceProvider{shared, shared}
	if pair[2] == 1 {
		sps[1] = world.SP()
	}
	rd := &c18Reader{}
	ids := make([]string, 2)
	withReader(rd, func() {
		res = vsched.Run(func(enabled []int, curEnabled bool, label string) int {
			if curEnabled {
				return ch.Choose("sched@"+label, len(enabled))
			}
			return ch.ChooseFree("sched-free@"+label, len(enabled))
		}, 5000,
			func() { ids[0], _ = c18Build(sps[0], pair[0]) },
			func() { ids[1], _ = c18Build(sps[1], pair[1]) })
	})
	keys, detail = c18JudgeIDs(ids, rd.draws)
	if res.Deadlock || res.Livelock || len(res.Panics) > 0 {
		keys = append(keys, "C18/schedule/deadlock-or-panic")
	}
	return dedupe(keys), fmt.Sprintf("builders=%s,%s separate-sp=%v schedule=%v %s", c18Builders[pair[0]], c18Builders[pair[1]], pair[2] == 1, res.Trace, detail), res
}

func c18Replay(raw json.RawMessage) ([]string, string) {
	var c c18Case
	if err := json.Unmarshal(raw, &c); err != nil {
		return nil, err.Error()
	}
	return c18Exec(c)
}

func c18Run(r *mc.Run) {
	r.Rule = "(a) 258 sixteen-byte answers of the random source (all-zero, all-one, each single bit set, each single bit clear): uuid.NewV4().String() must be the canonical lowercase 8-4-4-4-12 rendering of the answer with exactly the version nibble = 4 and the variant bits = 10 forced and every other bit copied (the transformation is bitwise, so the 122 free bits are an injective image of the source); (a') each of the three message builders with every value 0..255 of the first source byte: the ID is '_' + the v4 rendering for every pair of leading hex digits; (a'') a source answering with short reads of 1, 3, 8 or 15 bytes; (b) every history of <= 3 (quick) / <= 4 (thorough) constructions over 3 builders x 2 SP instances, and every interleaving (unbounded) of two constructions on two goroutines for all 9 builder pairs x shared/separate SP, with a recording source handing out distinct answers: each ID = '_' + the v4 rendering of a 16-byte window of the bytes the source handed out, windows of different IDs never overlap (no source byte used twice), every ID matches the xs:ID-safe pattern, none repeats; plus one history of 300 (quick) / 5000 (thorough) constructions for repeats that need many messages. non-trivial = a message was built and its ID compared with the recorded draws; distinct = distinct case"
	r.Assume("the unreplaced crypto/rand.Reader is the operating system's CSPRNG (Go's guarantee)")
	// supporting, does not decide: the uuid package's imports
	if f, err := parser.ParseFile(token.NewFileSet(), repoDir()+"/uuid/uuid.go", nil, parser.ImportsOnly); err == nil {
		imps := []string{}
		for _, im := range f.Imports {
			imps = append(imps, strings.Trim(im.Path.Value, `"`))
		}
		r.Set("uuid_imports(static, informational)", imps)
	}
	// (a)
	var pats [][]byte
	zero := make([]byte, 16)
	ones := make([]byte, 16)
	for i := range ones {
		ones[i] = 0xff
	}
	pats = append(pats, zero, ones)
	for bit := 0; bit < 128; bit++ {
		a := append([]byte(nil), zero...)
		a[bit/8] |= 1 << (bit % 8)
		b := append([]byte(nil), ones...)
		b[bit/8] &^= 1 << (bit % 8)
		pats = append(pats, a, b)
	}
	unobservable := 0
	for i, p := range pats {
		c := c18Case{Kind: "bits", Pattern: p}
		keys, detail := c18Exec(c)
		r.Eval(1)
		r.State(1)
		r.Transition(1)
		if strings.Contains(detail, "(not observable)") {
			r.Bucket("bits/not-observable")
			unobservable++
		} else {
			r.Bucket("bits")
		}
		r.Nontrivial(fmt.Sprintf("bits%x", p))
		if i%50 == 0 {
			r.Sample(map[string]interface{}{"pattern": hex.EncodeToString(p), "observed": detail})
		}
		for _, k := range keys {
			r.Violation(k, detail, c)
		}
	}
	// (a') every value of the first source byte (both leading hex digits of the ID) x builder
	for b := 0; b < 256; b++ {
		for builder := 0; builder < 3; builder++ {
			pat := bytes.Repeat([]byte{0x5a}, 16)
			pat[0] = byte(b)
			c := c18Case{Kind: "message-bits", Pattern: pat, History: []int{builder}}
			keys, detail := c18Exec(c)
			r.Eval(1)
			r.State(1)
			r.Transition(1)
			r.Bucket("message-bits")
			r.Nontrivial(fmt.Sprintf("message-bits%x/%d", pat[:1], builder))
			for _, k := range keys {
				r.Violation(k, detail, c)
			}
		}
	}
	// (a'') a source that answers with short reads (1, 3, 8, 15 bytes per call): every ID is still
	// made of 16 source bytes
	for _, chunk := range []int{1, 3, 8, 15} {
		for builder := 0; builder < 3; builder++ {
			c := c18Case{Kind: "message-bits", History: []int{builder, chunk}}
			keys, detail := c18Exec(c)
			r.Eval(1)
			r.State(1)
			r.Transition(1)
			r.Bucket("short-reads")
			r.Nontrivial(fmt.Sprintf("short-reads/%d/%d", chunk, builder))
			for _, k := range keys {
				r.Violation(k, detail, c)
			}
		}
	}
	// a source whose reads fail 1, 2, 3, 5 times in a row, or always
	for _, fails := range []int{1, 2, 3, 5, -1} {
		for builder := 0; builder < 3; builder++ {
			c := c18Case{Kind: "failing-source", History: []int{builder, fails}}
			keys, detail := c18Exec(c)
			r.Eval(1)
			r.State(1)
			r.Transition(1)
			r.Bucket("failing-source")
			r.Nontrivial(fmt.Sprintf("failing-source/%d/%d", fails, builder))
			for _, k := range keys {
				r.Violation(k, detail, c)
			}
		}
	}
	if unobservable > 0 {
		r.Cap(fmt.Sprintf("bit pass-through not observable for %d of %d patterns: the generator did not consult the random source during the call", unobservable, len(pats)))
	}
	// (b) histories
	depth := 3
	if r.Thorough() {
		depth = 4
	}
	var hists [][]int
	var rec func(prefix []int)
	rec = func(prefix []int) {
		if len(prefix) > 0 {
			hists = append(hists, append([]int(nil), prefix...))
		}
		if len(prefix) == depth {
			return
		}
		for x := 0; x < 6; x++ {
			rec(append(prefix, x))
		}
	}
	rec(nil)
	r.Set("histories", len(hists))
	for i, h := range hists {
		c := c18Case{Kind: "history", History: h}
		keys, detail := c18Exec(c)
		r.Eval(len(h))
		r.State(1)
		r.Transition(len(h))
		r.Bucket(fmt.Sprintf("history/len=%d", len(h)))
		r.Nontrivial(fmt.Sprint("h", h))
		if i%97 == 0 {
			r.Sample(map[string]interface{}{"history": h, "observed": detail})
		}
		for _, k := range keys {
			r.Violation(k, detail, c)
		}
	}
	// (b') one long history: repeats that need many constructions (buffered generators)
	long := 300
	if r.Thorough() {
		long = 5000
	}
	var lh []int
	for i := 0; i < long; i++ {
		lh = append(lh, (i*7+i/6)%6)
	}
	{
		c := c18Case{Kind: "history", History: lh}
		keys, detail := c18Exec(c)
		r.Eval(long)
		r.State(1)
		r.Transition(long)
		r.Bucket("history/long")
		r.Set("long_history_length", long)
		for _, k := range keys {
			r.Violation(k, detail[:min(len(detail), 1200)], c)
		}
	}
	// (b) schedules
	total := 0
	for a := 0; a < 3; a++ {
		for b := 0; b < 3; b++ {
			for sep := 0; sep < 2; sep++ {
				pair := []int{a, b, sep}
				run := func() {
					n, complete := mc.Enumerate(-1, r.Expired, func(ch *mc.Chooser) {
						keys, detail, res := c18Sched(pair, ch)
						r.Eval(2)
						r.State(1)
						r.Transition(res.Points)
						r.Bucket(fmt.Sprintf("schedule/preemptions=%d", res.Preempted))
						r.Nontrivial(fmt.Sprint("s", pair, res.Trace))
						for _, k := range keys {
							r.Violation(k, detail, c18Case{Kind: "schedule", Pair: pair, Schedule: ch.Trace()})
						}
					})
					total += n
					if !complete {
						r.Cap("schedule enumeration stopped by the internal deadline")
					}
				}
				if p := guard(run); p != "" {
					r.Fail(fmt.Sprintf("schedules of pair %v not reproducible (%s)", pair, p))
				}
			}
		}
	}
	r.Set("schedules", total)
}

func init() {
	register("C18", &check{run: c18Run, replay: c18Replay, quick: 300 * time.Second, thor: 900 * time.Second})
}
