package main

import (
	"errors"
	"fmt"
	"reflect"
	"verif/world"

	saml2 "github.com/russellhaering/gosaml2"
	"github.com/russellhaering/gosaml2/types"
)

// errInfo is a comparable description of an error value.
type errInfo struct {
	Nil     bool   `json:"nil"`
	Type    string `json:"type,omitempty"`
	Key     string `json:"key,omitempty"`  // ErrInvalidValue.Key / ErrMissingElement.Tag / ErrParsing.Tag
	Attr    string `json:"attr,omitempty"` // ErrMissingElement.Attribute
	Reason  string `json:"reason,omitempty"`
	Text    string `json:"text,omitempty"`
	Wrapped bool   `json:"wrapped,omitempty"` // was inside ErrVerification
}

func describeErr(err error) errInfo {
	if err == nil {
		return errInfo{Nil: true}
	}
	var e errInfo
	// the typed error may be handed out bare, inside ErrVerification (by value or by pointer) or
	// wrapped with %w; walk the chain and take the first typed validation error found
	for depth := 0; err != nil && depth < 8; depth++ {
		var next error
		switch v := err.(type) {
		case saml2.ErrVerification:
			e.Wrapped, next = true, v.Cause
			if next == nil {
				return errInfo{Type: "ErrVerification(nil)", Wrapped: true}
			}
		case *saml2.ErrVerification:
			e.Wrapped, next = true, v.Cause
			if next == nil {
				return errInfo{Type: "ErrVerification(nil)", Wrapped: true}
			}
		case saml2.ErrInvalidValue:
			e.Type, e.Key, e.Reason = "ErrInvalidValue", v.Key, v.Reason
		case *saml2.ErrInvalidValue:
			e.Type, e.Key, e.Reason = "ErrInvalidValue", v.Key, v.Reason
		case saml2.ErrMissingElement:
			e.Type, e.Key, e.Attr = "ErrMissingElement", v.Tag, v.Attribute
		case *saml2.ErrMissingElement:
			e.Type, e.Key, e.Attr = "ErrMissingElement", v.Tag, v.Attribute
		case saml2.ErrParsing:
			e.Type, e.Key = "ErrParsing", v.Tag
		case *saml2.ErrParsing:
			e.Type, e.Key = "ErrParsing", v.Tag
		default:
			next = errors.Unwrap(err)
			if next == nil {
				e.Type = reflect.TypeOf(err).String()
			}
		}
		if e.Text == "" || next == nil {
			e.Text = err.Error()
		}
		if e.Type != "" {
			break
		}
		err = next
	}
	return e
}

// callResult is what one entry point did: panicked, or returned (result, error).
type callResult struct {
	Panic  string  `json:"panic,omitempty"`
	Err    errInfo `json:"err"`
	NilRes bool    `json:"nil_result"`
}

func (c callResult) Accepted() bool { return c.Panic == "" && c.Err.Nil && !c.NilRes }

func guard(f func()) (p string) {
	defer func() {
		if r := recover(); r != nil {
			p = fmt.Sprint(r)
			if p == "" {
				p = "panic"
			}
		}
	}()
	f()
	return ""
}

// liveScribble: in a live-instance pass, the results handed out while the previous case was
// judged are written all over (every field, slice element and map entry, in place) before the
// next case starts - their holder is free to do that, and nothing a later call returns may
// depend on it.
func liveScribble() (changed string) {
	if !world.LiveOn() {
		return ""
	}
	for _, v := range world.TakeRemembered() {
		h := v.(*heldResult)
		// a result handed out two cases ago has lived through every call made since: it must
		// still be what it was (nothing a later call does may reach into it)
		if now := snapshotOf(h.v); now != h.was && changed == "" {
			changed = fmt.Sprintf("a %T handed out earlier changed while later calls were made: was %.200s now %.200s", h.v, h.was, now)
		}
		scribbleDeep(reflect.ValueOf(h.v), 0, map[uintptr]bool{})
	}
	return changed
}

// heldResult is a result handed out in a live pass together with its rendering at that time.
type heldResult struct {
	v   interface{}
	was string
}

func remember(v interface{}) {
	if world.LiveOn() {
		world.Remember(&heldResult{v: v, was: snapshotOf(v)})
	}
}

func validateResponse(sp *saml2.SAMLServiceProvider, enc string) (*types.Response, callResult) {
	var resp *types.Response
	var err error
	defer func() {
		if resp != nil {
			remember(resp)
		}
	}()
	p := guard(func() { resp, err = sp.ValidateEncodedResponse(enc) })
	return resp, callResult{Panic: p, Err: describeErr(err), NilRes: resp == nil}
}

func retrieveInfo(sp *saml2.SAMLServiceProvider, enc string) (*saml2.AssertionInfo, callResult) {
	var info *saml2.AssertionInfo
	var err error
	defer func() {
		if info != nil {
			remember(info)
		}
	}()
	p := guard(func() { info, err = sp.RetrieveAssertionInfo(enc) })
	return info, callResult{Panic: p, Err: describeErr(err), NilRes: info == nil}
}

func validateLogoutRequest(sp *saml2.SAMLServiceProvider, enc string) (*saml2.LogoutRequest, callResult) {
	var res *saml2.LogoutRequest
	var err error
	defer func() {
		if res != nil {
			remember(res)
		}
	}()
	p := guard(func() { res, err = sp.ValidateEncodedLogoutRequestPOST(enc) })
	return res, callResult{Panic: p, Err: describeErr(err), NilRes: res == nil}
}

func validateLogoutResponse(sp *saml2.SAMLServiceProvider, enc string) (*types.LogoutResponse, callResult) {
	var res *types.LogoutResponse
	var err error
	defer func() {
		if res != nil {
			remember(res)
		}
	}()
	p := guard(func() { res, err = sp.ValidateEncodedLogoutResponsePOST(enc) })
	return res, callResult{Panic: p, Err: describeErr(err), NilRes: res == nil}
}
