package main

import (
	"encoding/json"
	"fmt"
	"github.com/beevik/etree"
	"strings"
	"time"

	saml2 "github.com/russellhaering/gosaml2"
	dsig "github.com/russellhaering/goxmldsig"

	"verif/idp"
	"verif/mc"
	"verif/oracle"
	"verif/world"
)

// C08 — genuine IdP responses are accepted and reproduced faithfully in every layout.
// C20 reuses the generator (c08Doc) and compares the unverified pre-decode with the result.

var c08Values = []string{
	"alice",
	"",
	" lead",
	"trail ",
	"in ner",
	`a&b<c>d"e'f`,
	"ünïcödé-日本語-😀",
	"]]>",
	"&amp;",
	"tab\tand\nLF inside",
	"CR\rinside",
	strings.Repeat("0123456789abcdef", 512), // 8 KiB
}

var c08AttrVals = []string{"plain", `q"uo'te&<>`, "ünï", " lead trail ", "tab\there", "nl\nhere", "cr\rhere"}

var c08Digests = []string{idp.DigSHA256, idp.DigSHA1, idp.DigSHA384, idp.DigSHA512}

var c08SigAlgs = []string{dsig.RSASHA256SignatureMethod, dsig.RSASHA1SignatureMethod, dsig.RSASHA512SignatureMethod, dsig.ECDSASHA256SignatureMethod}

type c08Case struct {
	Placement int `json:"placement"` // 0 Response, 1 assertion, 2 both
	SigAlg    int `json:"sigalg"`
	Digest    int `json:"digest"`
	C14N      int `json:"c14n"`

	Prefix      int   `json:"prefix"`
	Pretty      bool  `json:"pretty"`
	Deflate     bool  `json:"deflate"`
	Lex         []int `json:"lex"`      // indices into idp.LexNames
	Comments    int   `json:"comments"` // 0 none, 1 inside NameID, 2 inside an AttributeValue, 3 between elements, 4 all
	N           int   `json:"n"`        // assertions (1..3)
	TwoStmts    bool  `json:"two_statements"`
	AttrShape   int   `json:"attr_shape"`
	Authn       int   `json:"authn"`
	NoInResp    bool  `json:"no_inresponseto"`
	NameID      int   `json:"nameid"`
	AttrVal     int   `json:"attrval"`
	AttrAttrVal int   `json:"attr_attr_val"` // special string in attribute-valued fields (FriendlyName, SessionIndex)
	PrefixList  bool  `json:"prefix_list"`
	Wrap64      bool  `json:"wrap64"` // base64 of digest, signature and certificate broken into 64-character lines
	// C14NA (placement both): the assertion signatures use canonicaliser AllC14N[C14NA-1] while
	// the Response signature uses AllC14N[C14N]; 0 = the same one
	C14NA int `json:"c14n_assertion,omitempty"`
	// PartSigned (placement both, N>1): 1 = only the first assertion carries its own signature,
	// 2 = only the last (the Response signature covers them all)
	PartSigned int `json:"part_signed,omitempty"`
	// AllowMissing: the SP is configured with AllowMissingAttributes and the first assertion has
	// no AttributeStatement at all (a conforming IdP may send none)
	AllowMissing bool `json:"allow_missing_attributes,omitempty"`
	// OuterWrap: the base64 text of the message as a MIME encoder writes it: 1 LF every 76
	// characters, 2 CRLF every 64, 3 CRLF every 76, 4 one trailing CRLF
	OuterWrap int `json:"outer_base64_wrap,omitempty"`
	// Lookalike: before signing, the IdP's serialiser also writes namespace-QUALIFIED attributes
	// named like SAML's own (which are unqualified) on Conditions, SubjectConfirmationData,
	// AuthnStatement and the first Attribute, holding other values, with the prefix declared on
	// an ancestor. They are signed like everything else; what is returned is what the SAML
	// attributes say
	Lookalike bool `json:"qualified_lookalike_attributes,omitempty"`
}

// c08AddLookalikes writes the qualified look-alike attributes into every assertion of root.
func c08AddLookalikes(root *etree.Element) {
	for _, as := range oracle.Children(root, oracle.NSA, "Assertion") {
		prefix := as.Space
		if prefix == "" {
			prefix = "sa"
			as.CreateAttr("xmlns:sa", oracle.NSA)
		}
		var walk func(e *etree.Element)
		walk = func(e *etree.Element) {
			switch e.Tag {
			case "Conditions":
				e.CreateAttr(prefix+":NotOnOrAfter", "2099-01-01T00:00:00Z")
				e.CreateAttr(prefix+":NotBefore", "1999-01-01T00:00:00Z")
			case "SubjectConfirmationData":
				e.CreateAttr(prefix+":NotOnOrAfter", "2099-01-01T00:00:00Z")
				e.CreateAttr(prefix+":Recipient", "https://evil.example.com/acs")
				e.CreateAttr(prefix+":InResponseTo", "_other-request")
			case "AuthnStatement":
				e.CreateAttr(prefix+":SessionIndex", "_other-session")
			case "Attribute":
				e.CreateAttr(prefix+":Name", "other-name")
			case "NameID":
				e.CreateAttr(prefix+":Format", "urn:example:other-format")
			}
			for _, ch := range e.ChildElements() {
				if ch.Tag != "Signature" {
					walk(ch)
				}
			}
		}
		walk(as)
	}
}

func c08WrapOuter(enc string, mode int) string {
	width, sep := 0, ""
	switch mode {
	case 1:
		width, sep = 76, "\n"
	case 2:
		width, sep = 64, "\r\n"
	case 3:
		width, sep = 76, "\r\n"
	case 4:
		return enc + "\r\n"
	default:
		return enc
	}
	var b strings.Builder
	for len(enc) > width {
		b.WriteString(enc[:width] + sep)
		enc = enc[width:]
	}
	b.WriteString(enc)
	return b.String()
}

func c08Key(alg int) string {
	if c08SigAlgs[alg] == dsig.ECDSASHA256SignatureMethod {
		return "K3"
	}
	return "K1"
}

func c08Spec(c c08Case) idp.ResponseSpec {
	n := c.N
	if n == 0 {
		n = 1
	}
	r := idp.DefaultResponse(n)
	if c.NoInResp {
		r.InResponseTo = idp.Absent
	}
	a := &r.Assertions[0]
	a.NameID = c08Values[c.NameID]
	switch c.AttrShape {
	case 1:
		a.AttrStatements = [][]idp.AttrSpec{{}}
	case 2:
		a.AttrStatements = [][]idp.AttrSpec{{
			{Name: "zero", Values: []string{}},
			{Name: "one", Values: []string{"1"}, FriendlyName: "One"},
			{Name: "three", Values: []string{"c", "a", "b"}, NameFormat: "urn:oasis:names:tc:SAML:2.0:attrname-format:uri"},
		}}
	case 3:
		a.AttrStatements = [][]idp.AttrSpec{{{Name: "dup-values", Values: []string{"x", "x", ""}}}}
	case 4:
		a.AttrStatements = [][]idp.AttrSpec{{{Name: "urn:oid:0.9.2342.19200300.100.1.1", FriendlyName: "uid", Values: []string{"alice"}}, {Name: "uid", FriendlyName: "urn:oid:0.9.2342.19200300.100.1.1", Values: []string{"not-alice"}}}}
	case 6:
		// a long list: one attribute with 600 values (the assertion has more than 600 elements,
		// the Response fewer than 1000)
		vals := make([]string, 600)
		for i := range vals {
			vals[i] = fmt.Sprintf("group-%03d", i)
		}
		a.AttrStatements = [][]idp.AttrSpec{{{Name: "memberOf", Values: vals}, {Name: "uid", Values: []string{"alice"}}}}
	case 7:
		// typed values: 70 AttributeValues that each declare xs and xsi again (140 declarations)
		vals := make([]string, 70)
		for i := range vals {
			vals[i] = fmt.Sprintf("group-%03d", i)
		}
		a.AttrStatements = [][]idp.AttrSpec{{{Name: "memberOf", Values: vals, Typed: true}, {Name: "uid", Values: []string{"alice"}, Typed: true}}}
	case 5:
		// the same Name on two Attribute elements (distinguished by NameFormat), and once more
		a.AttrStatements = [][]idp.AttrSpec{{
			{Name: "role", NameFormat: "urn:oasis:names:tc:SAML:2.0:attrname-format:basic", Values: []string{"admin", "dev"}},
			{Name: "other", Values: []string{"o"}},
			{Name: "role", NameFormat: "urn:oasis:names:tc:SAML:2.0:attrname-format:uri", FriendlyName: "Role", Values: []string{"guest"}},
		}}
	}
	if c.AllowMissing {
		a.AttrStatements = nil
	} else if len(a.AttrStatements[0]) > 0 && len(a.AttrStatements[0][0].Values) > 0 {
		a.AttrStatements[0][0].Values[0] = c08Values[c.AttrVal]
	} else if c.AttrVal != 0 {
		a.AttrStatements[0] = append(a.AttrStatements[0], idp.AttrSpec{Name: "special", Values: []string{c08Values[c.AttrVal]}})
	}
	if c.TwoStmts && !c.AllowMissing {
		a.AttrStatements = append(a.AttrStatements, []idp.AttrSpec{{Name: "second-statement", Values: []string{"s1", "s2"}}})
	}
	if c.AttrAttrVal != 0 && c.AllowMissing {
		a.SessionIndex = c08AttrVals[c.AttrAttrVal]
	} else if c.AttrAttrVal != 0 {
		v := c08AttrVals[c.AttrAttrVal]
		a.SessionIndex = v
		a.AttrStatements[0] = append(a.AttrStatements[0], idp.AttrSpec{Name: "named:" + v, FriendlyName: v, NameFormat: v, Values: []string{"v"}})
	}
	switch c.Authn {
	case 1:
		a.SessionIndex = idp.Absent
	case 2:
		a.SessionNotOnOrAfter = idp.Absent
	case 3:
		a.AuthnInstant = "2030-01-01T17:29:00.5+05:30"
		a.SessionNotOnOrAfter = "2030-01-01T12:00:00.000-08:00"
	case 4:
		a.NoAuthn = true
	case 5:
		a.ClassRef = idp.Absent
	}
	sign := idp.SignSpec{Key: c08Key(c.SigAlg), SigAlg: c08SigAlgs[c.SigAlg], Digest: c08Digests[c.Digest], C14N: idp.AllC14N[c.C14N]}
	if c.PrefixList {
		sign.PrefixList = "saml samlp xs"
	}
	sign.Wrap64 = c.Wrap64
	if c.Placement == 0 || c.Placement == 2 {
		r.Sign = sign
	}
	if c.Placement == 1 || c.Placement == 2 {
		asign := sign
		if c.Placement == 2 && c.C14NA != 0 {
			asign.C14N = idp.AllC14N[c.C14NA-1]
		}
		for i := range r.Assertions {
			if c.Placement == 2 && ((c.PartSigned == 1 && i != 0) || (c.PartSigned == 2 && i != len(r.Assertions)-1)) {
				continue
			}
			r.Assertions[i].Sign = asign
		}
	}
	r.Layout.Prefix = c.Prefix
	r.Layout.Pretty = c.Pretty
	r.Layout.Deflate = c.Deflate
	for _, l := range c.Lex {
		r.Layout.Lex = append(r.Layout.Lex, idp.LexNames[l])
	}
	return r
}

// c08Doc renders the case; comments are inserted into the tree before signing. It returns the
// encoded message, the expected tuples (from the tree as built) and the raw XML.
func c08Doc(c c08Case) (enc string, want oracle.ResponseT, xml []byte, err error) {
	spec := c08Spec(c)
	// build unsigned first to place comments, then sign through the normal path: BuildResponse
	// signs inside; so comments are injected via a hook on the spec: we rebuild by hand here.
	unsigned := spec
	unsigned.Sign = idp.SignSpec{}
	unsigned.Assertions = append([]idp.AssertionSpec(nil), spec.Assertions...)
	for i := range unsigned.Assertions {
		unsigned.Assertions[i].Sign = idp.SignSpec{}
	}
	doc := idp.BuildResponse(unsigned)
	root := doc.Root()
	as := oracle.Children(root, oracle.NSA, "Assertion")
	if c.Comments != 0 {
		idp.InjectComments(as[0], c.Comments)
	}
	want = oracle.ResponseFromElement(root)
	if c.Lookalike {
		c08AddLookalikes(root)
	}
	for i, a := range as {
		if spec.Assertions[i].Sign.Signed() {
			idp.SignInPlace(a, spec.Assertions[i].Sign)
		}
	}
	if spec.Sign.Signed() {
		idp.SignInPlace(root, spec.Sign)
	}
	base := idp.Bytes(doc, idp.Layout{})
	xml = idp.Bytes(doc, spec.Layout)
	if len(spec.Layout.Lex) > 0 {
		if e := idp.CheckLex(base, xml); e != nil {
			return "", want, xml, e
		}
	}
	return c08WrapOuter(idp.Encode(xml, spec.Layout.Deflate), c.OuterWrap), want, xml, nil
}

func c08Conf(c c08Case) world.SPConf {
	// the store holds exactly the certificate of the key this case is signed with: on the
	// long-lived instance of the live pass it changes from case to case (key roll-over)
	return world.SPConf{Store: []string{c08Key(c.SigAlg)}, AllowMissingAttributes: c.AllowMissing}
}

func c08Exec(c c08Case) (keys []string, detail, class string) {
	enc, want, _, err := c08Doc(c)
	if err != nil {
		return []string{"HARNESS/lex-transform-not-infoset-preserving"}, err.Error(), "harness-error"
	}
	resp, r1 := validateResponse(c08Conf(c).Build(), enc)
	info, r2 := retrieveInfo(c08Conf(c).Build(), enc)
	detail = fmt.Sprintf("case=%+v | ValidateEncodedResponse accepted=%v err=%q panic=%q | RetrieveAssertionInfo accepted=%v err=%q", c, r1.Accepted(), r1.Err.Text, r1.Panic, r2.Accepted(), r2.Err.Text)
	if r1.Panic != "" || r2.Panic != "" {
		return []string{"C08/panic"}, detail, "panic"
	}
	layout := fmt.Sprintf("c14n=%s", strings.TrimPrefix(idp.AllC14N[c.C14N], "http://www.w3.org/"))
	if !r1.Accepted() || !r2.Accepted() {
		why := "layout"
		switch {
		case len(c.Lex) > 0:
			why = "lex:" + idp.LexNames[c.Lex[0]]
		case c.Comments != 0:
			why = fmt.Sprintf("comments=%d", c.Comments)
		case c.Prefix != 0:
			why = fmt.Sprintf("prefix-style=%d", c.Prefix)
		}
		return []string{"C08/genuine-response-rejected/" + why + "/" + layout}, detail, "REJECTED"
	}
	got := oracle.FromResponse(resp)
	if got.Key() != want.Key() {
		// name the field class that differs
		what := "response-fields"
		if len(got.Assertions) != len(want.Assertions) {
			what = "assertion-count"
		} else {
			for i := range got.Assertions {
				if got.Assertions[i] != want.Assertions[i] {
					var g, w oracle.AssertionT
					json.Unmarshal([]byte(got.Assertions[i]), &g)
					json.Unmarshal([]byte(want.Assertions[i]), &w)
					what = c08Diff(g, w)
					detail += fmt.Sprintf(" | assertion[%d] differs in %s: got NameID=%q want %q", i, what, g.NameID, w.NameID)
					break
				}
			}
		}
		keys = append(keys, "C08/returned-data-differs-from-signed/"+what)
	}
	// flags (also C04): placement decides
	wantRespFlag := c.Placement != 1
	if resp.SignatureValidated != wantRespFlag {
		keys = append(keys, "C08/response-flag-unexpected")
	}
	// summary = first assertion
	var first oracle.AssertionT
	json.Unmarshal([]byte(want.Assertions[0]), &first)
	if info.NameID != first.NameID {
		keys = append(keys, "C08/summary/nameid-differs")
		detail += fmt.Sprintf(" | summary NameID=%q want %q", info.NameID, first.NameID)
	}
	if info.SessionIndex != first.SessionIndex {
		keys = append(keys, "C08/summary/session-index-differs")
		detail += fmt.Sprintf(" | summary SessionIndex=%q want %q", info.SessionIndex, first.SessionIndex)
	}
	if (info.AuthnInstant == nil) != (first.AuthnInstant == "") || (info.AuthnInstant != nil && info.AuthnInstant.UTC().Format(time.RFC3339Nano) != first.AuthnInstant) {
		keys = append(keys, "C08/summary/authn-instant-differs")
	}
	if (info.SessionNotOnOrAfter == nil) != (first.SessionNotOnOrAfter == "") || (info.SessionNotOnOrAfter != nil && info.SessionNotOnOrAfter.UTC().Format(time.RFC3339Nano) != first.SessionNotOnOrAfter) {
		keys = append(keys, "C08/summary/session-notonorafter-differs")
	}
	if len(info.Assertions) != len(want.Assertions) {
		keys = append(keys, "C08/summary/assertion-list-differs")
	}
	if p := guard(func() {
		// the summary map is keyed by Name: for a name the IdP used on several Attribute elements it
		// holds one of them (whole), never a blend and never something unsigned
		byName := map[string][]int{}
		for i, at := range first.Attrs {
			byName[at.Name] = append(byName[at.Name], i)
		}
		if len(info.Values) != len(byName) {
			keys = append(keys, "C08/summary/attribute-count-differs")
		}
		for name, idxs := range byName {
			v, ok := info.Values[name]
			if !ok {
				keys = append(keys, "C08/summary/attribute-missing")
				continue
			}
			got := make([]string, 0, len(v.Values))
			for _, x := range v.Values {
				got = append(got, x.Value)
			}
			match := -1
			for _, i := range idxs {
				at := first.Attrs[i]
				if v.FriendlyName == at.Friendly && v.NameFormat == at.Format && sameList(got, at.Values) {
					match = i
				}
			}
			if match < 0 {
				at := first.Attrs[idxs[0]]
				if v.FriendlyName != at.Friendly || v.NameFormat != at.Format {
					keys = append(keys, "C08/summary/attribute-metadata-differs")
				}
				if !sameList(got, at.Values) {
					keys = append(keys, "C08/summary/attribute-values-differ")
					detail += fmt.Sprintf(" | Values[%q]=%q want %q", name, got, at.Values)
				}
				match = idxs[0]
			}
			at := first.Attrs[match]
			// accessors
			all := info.Values.GetAll(at.Name)
			if !sameList(all, at.Values) {
				keys = append(keys, "C08/accessor/GetAll-differs")
				detail += fmt.Sprintf(" | GetAll(%q)=%q want %q", at.Name, all, at.Values)
			}
			if info.Values.GetSize(at.Name) != len(at.Values) {
				keys = append(keys, "C08/accessor/GetSize-differs")
			}
			wantFirst := ""
			if len(at.Values) > 0 {
				wantFirst = at.Values[0]
			}
			if info.Values.Get(at.Name) != wantFirst {
				keys = append(keys, "C08/accessor/Get-differs")
			}
		}
		// names that differ from a present one in letter case only, or by surrounding blanks, are
		// absent names
		for name := range byName {
			for _, near := range []string{strings.ToUpper(name), strings.ToLower(name), " " + name, name + " "} {
				if _, present := byName[near]; present {
					continue
				}
				if info.Values.Get(near) != "" || info.Values.GetSize(near) != 0 || len(info.Values.GetAll(near)) != 0 {
					keys = append(keys, "C08/accessor/absent-name-not-empty")
					detail += fmt.Sprintf(" | accessors answer for the absent name %q", near)
				}
			}
		}
		if info.Values.Get("no-such-attribute") != "" || info.Values.GetSize("no-such-attribute") != 0 || len(info.Values.GetAll("no-such-attribute")) != 0 {
			keys = append(keys, "C08/accessor/absent-name-not-empty")
		}
		var nilVals saml2.Values
		if nilVals.Get("x") != "" || nilVals.GetSize("x") != 0 || len(nilVals.GetAll("x")) != 0 {
			keys = append(keys, "C08/accessor/nil-map-not-empty")
		}
	}); p != "" {
		keys = append(keys, "C08/accessor/panic")
		detail += " | accessor panicked: " + p
	}
	class = fmt.Sprintf("accepted/faithful/placement=%d/lex=%v", c.Placement, len(c.Lex) > 0)
	if len(keys) > 0 {
		class = "accepted/DIFFERS"
	}
	return dedupe(keys), detail, class
}

func dedupe(k []string) []string {
	seen := map[string]bool{}
	var out []string
	for _, x := range k {
		if !seen[x] {
			seen[x] = true
			out = append(out, x)
		}
	}
	return out
}

// c08Diff names the first field class in which two assertion tuples differ, and for text
// values which character class is involved.
func c08Diff(g, w oracle.AssertionT) string {
	cls := func(want string) string {
		switch {
		case strings.Contains(want, "\r"):
			return "/carriage-return"
		case strings.ContainsAny(want, "\t\n"):
			return "/tab-or-newline"
		}
		return ""
	}
	switch {
	case g.NameID != w.NameID:
		return "NameID" + cls(w.NameID)
	case g.SessionIndex != w.SessionIndex:
		return "SessionIndex" + cls(w.SessionIndex)
	case fmt.Sprint(g.Attrs) != fmt.Sprint(w.Attrs):
		for i := range w.Attrs {
			if i < len(g.Attrs) {
				if g.Attrs[i].Name != w.Attrs[i].Name {
					return "Attribute.Name" + cls(w.Attrs[i].Name)
				}
				if g.Attrs[i].Friendly != w.Attrs[i].Friendly {
					return "Attribute.FriendlyName" + cls(w.Attrs[i].Friendly)
				}
				if g.Attrs[i].Format != w.Attrs[i].Format {
					return "Attribute.NameFormat" + cls(w.Attrs[i].Format)
				}
				for j := range w.Attrs[i].Values {
					if j < len(g.Attrs[i].Values) && g.Attrs[i].Values[j] != w.Attrs[i].Values[j] {
						return "AttributeValue" + cls(w.Attrs[i].Values[j])
					}
				}
			}
		}
		return "attributes"
	case g.AuthnInstant != w.AuthnInstant || g.SessionNotOnOrAfter != w.SessionNotOnOrAfter:
		return "authn-times"
	case g.ID != w.ID || g.Issuer != w.Issuer:
		return "id-or-issuer"
	}
	return "other-fields"
}

func c08Replay(raw json.RawMessage) ([]string, string) {
	if keys, detail, ok := liveReplay(raw, "C08", func(t string) int { return len(c08CasesFor(t == "thorough")) }, func(t string, i int) string {
		k, _, class := c08Exec(c08CasesFor(t == "thorough")[i])
		return sig(k, class)
	}); ok {
		return keys, detail
	}
	var c c08Case
	if err := json.Unmarshal(raw, &c); err != nil {
		return nil, err.Error()
	}
	k, d, _ := c08Exec(c)
	return k, d
}

// c08Gen is the deviation-bounded driver over layout and content dimensions.
func c08Gen(ch *mc.Chooser) c08Case {
	c := c08Case{N: 1}
	c.Placement = ch.Choose("placement", 3)
	c.C14N = ch.Choose("c14n", len(idp.AllC14N))
	c.Prefix = ch.Choose("prefix", 4)
	c.Pretty = ch.Bool("pretty")
	c.Deflate = ch.Bool("deflate")
	for i := range idp.LexNames {
		if ch.Bool("lex:" + idp.LexNames[i]) {
			c.Lex = append(c.Lex, i)
		}
	}
	c.Comments = ch.Choose("comments", 5)
	c.N = 1 + ch.Choose("n", 3)
	c.TwoStmts = ch.Bool("two-statements")
	c.AttrShape = ch.Choose("attr-shape", 8)
	c.Authn = ch.Choose("authn", 6)
	c.NoInResp = ch.Bool("no-inresponseto")
	c.NameID = ch.Choose("nameid", len(c08Values))
	c.AttrVal = ch.Choose("attrval", len(c08Values))
	c.AttrAttrVal = ch.Choose("attr-attr-val", len(c08AttrVals))
	c.PrefixList = ch.Bool("prefix-list")
	c.Wrap64 = ch.Bool("wrap64")
	c.AllowMissing = ch.Bool("no-attribute-statement")
	c.OuterWrap = ch.Choose("outer-base64-wrap", 5)
	if c.Placement == 2 {
		c.C14NA = ch.Choose("c14n-assertion", len(idp.AllC14N)+1)
		if c.N > 1 {
			c.PartSigned = ch.Choose("part-signed", 3)
		}
	}
	return c
}

var c08Memo = map[bool][]c08Case{}

// c08CasesFor rebuilds the case list of a tier without a Run (for replays of the live pass).
func c08CasesFor(thorough bool) []c08Case {
	if c, ok := c08Memo[thorough]; ok {
		return c
	}
	tier := "quick"
	if thorough {
		tier = "thorough"
	}
	c := c08Cases(mc.NewRun("C08", tier, time.Hour, nil))
	c08Memo[thorough] = c
	return c
}

func c08Cases(r *mc.Run) []c08Case {
	var cases []c08Case
	// (a) full product of what the validator must support, on the default document
	mc.Enumerate(-1, r.Expired, func(ch *mc.Chooser) {
		c := c08Case{N: 1}
		c.Placement = ch.Choose("placement", 3)
		c.SigAlg = ch.Choose("sigalg", len(c08SigAlgs))
		c.Digest = ch.Choose("digest", 4)
		c.C14N = ch.Choose("c14n", len(idp.AllC14N))
		cases = append(cases, c)
	})
	r.Set("algorithm_product", len(cases))
	// (a') both placements signed with different canonicalisers (and signed comments, which only
	// the WithComments variants keep), one and two assertions, all or only one of them signed
	na := len(cases)
	mc.Enumerate(-1, r.Expired, func(ch *mc.Chooser) {
		c := c08Case{N: 1, Placement: 2}
		c.C14N = ch.Choose("c14n", len(idp.AllC14N))
		c.C14NA = ch.Choose("c14n-assertion", len(idp.AllC14N)+1)
		c.Comments = []int{0, 1, 4}[ch.Choose("comments", 3)]
		c.N = 1 + ch.Choose("n", 2)
		if c.N > 1 {
			c.PartSigned = ch.Choose("part-signed", 3)
		}
		c.PrefixList = ch.Bool("prefix-list")
		cases = append(cases, c)
	})
	r.Set("mixed_canonicaliser_product", len(cases)-na)
	// (a'') qualified look-alike attributes written (and signed) by the IdP
	nl := len(cases)
	mc.Enumerate(-1, r.Expired, func(ch *mc.Chooser) {
		c := c08Case{N: 1, Lookalike: true}
		c.Placement = ch.Choose("placement", 3)
		c.C14N = ch.Choose("c14n", len(idp.AllC14N))
		c.Prefix = ch.Choose("prefix", 4)
		c.N = 1 + ch.Choose("n", 2)
		cases = append(cases, c)
	})
	r.Set("qualified_lookalike_product", len(cases)-nl)
	// (b) deviation-bounded layouts and contents
	bound := 2
	if r.Thorough() {
		bound = 3
	}
	r.Set("layout_deviation_bound", bound)
	n0 := len(cases)
	_, complete := mc.Enumerate(bound, r.Expired, func(ch *mc.Chooser) { cases = append(cases, c08Gen(ch)) })
	if !complete {
		r.Cap("layout enumeration stopped by deadline")
	}
	r.Set("layout_cases", len(cases)-n0)
	return cases
}

func c08Run(r *mc.Run) {
	r.Rule = "full product signing placement(3) x signature method(4) x digest(4) x canonicaliser(6) on the default document, plus the full product (placement both) Response canonicaliser(6) x assertion canonicaliser(same + 6) x signed comments(3) x 1-2 assertions x which assertions carry their own signature(3) x InclusiveNamespaces list(2), plus every combination of <=2 (quick) / <=3 (thorough) deviations over 32 layout/content dimensions (MIME line wrapping of the outer base64 text, no AttributeStatement at all with AllowMissingAttributes, placement, c14n, a different assertion c14n, partially signed assertions, 4 prefix styles, pretty-printing, DEFLATE, 11 lexical re-layouts, comments in signed text, 1-3 assertions, two AttributeStatements, 7 attribute shapes (incl. one Name on several Attribute elements, one attribute with 600 values), 6 AuthnStatement shapes, InResponseTo, 12 NameID strings, 12 attribute-value strings, 7 attribute-valued strings, InclusiveNamespaces prefix list, base64 of digest/signature/certificate wrapped at 64 columns); each lexical re-layout is machine-checked to preserve the parse; non-trivial = accepted and compared field-for-field with the generating spec; distinct = distinct case"
	r.Assume("goxmldsig canonicalisers used by the harness signer", "etree parser/canonical writer as harness DOM", "sizes stay below goxmldsig's 1000-element traversal cap")
	cases := c08Cases(r)
	r.State(len(cases))
	fresh := make([]string, len(cases))
	defer func() {
		stride := 1
		if r.Thorough() {
			stride = 16
		}
		livePass(r, len(cases), stride, 90*time.Second, func(i int) string {
			keys, _, class := c08Exec(cases[i])
			return sig(keys, class)
		}, fresh)
	}()
	r.Par(len(cases), func(i int) {
		c := cases[i]
		keys, detail, class := c08Exec(c)
		fresh[i] = sig(keys, class)
		r.Eval(2)
		r.Transition(2)
		r.Bucket(class)
		if strings.HasPrefix(class, "accepted") {
			r.Nontrivial(fmt.Sprintf("%+v", c))
		}
		if i%1499 == 0 {
			r.Sample(map[string]interface{}{"case": c, "observed": detail[:min(len(detail), 600)]})
		}
		for _, k := range keys {
			if strings.HasPrefix(k, "HARNESS/") {
				r.Cap("harness self-check failed: " + detail)
				continue
			}
			r.Violation(k, detail[:min(len(detail), 1500)], c)
		}
	})
}

func min(a, b int) int {
	if a < b {
		return a
	}
	return b
}

func init() {
	register("C08", &check{run: c08Run, replay: c08Replay, quick: 240 * time.Second, thor: 1500 * time.Second})
}
