package main

import (
	"bytes"
	"crypto/tls"
	"encoding/json"
	"fmt"
	"strings"
	"time"

	"github.com/beevik/etree"
	"github.com/russellhaering/gosaml2/types"

	"verif/idp"
	"verif/mc"
	"verif/oracle"
	"verif/world"
)

// C11 — every advertised encryption method round-trips exactly, on both key APIs.

type c11Transport struct{ KeyAlg, Digest string }

func c11Transports() []c11Transport {
	var out []c11Transport
	for _, ka := range []string{idp.OAEPMGF1P, idp.OAEP11} {
		for _, d := range []string{"", idp.EncDigSHA1, idp.EncDigSHA256, idp.EncDigSHA512} {
			out = append(out, c11Transport{ka, d})
		}
	}
	return append(out, c11Transport{idp.RSA15, ""})
}

type c11Case struct {
	Level     string `json:"level"` // "DecryptBytes" | "Decrypt" | "ValidateEncodedResponse"
	DataAlg   int    `json:"data_alg"`
	Transport int    `json:"transport"`
	Placement string `json:"placement"`
	Recip     bool   `json:"recipient_cert"`
	Len       int    `json:"len"`
	Tail      int    `json:"tail"` // 0 non-zero, 1 one zero byte, 2 two, 3 sixteen
	Fill      string `json:"fill"`
	KeyCfg    string `json:"key_cfg,omitempty"` // ValidateEncodedResponse: field | setter | both-same | both-different | field-custom
	Signed    string `json:"signed,omitempty"`  // "response" | "assertion"
	// EncMask (ValidateEncodedResponse level, 0 = one assertion, encrypted): a Response with two
	// assertions of which the first (1), the second (2) or both (3) are encrypted
	EncMask int `json:"enc_mask,omitempty"`
	// Mixed (with EncMask 3): the two encrypted assertions differ in EncryptedKey placement and
	// OAEP digest (1: inline+sha256 then detached+default, 2: the reverse)
	Mixed int `json:"mixed,omitempty"`
	// NS: where the prefixes of the EncryptedAssertion element are declared (0 on the element
	// itself; 1 its own prefix on the Response root only; 2 all of saml/xenc/ds on the root only;
	// 3 a local default namespace). Signed "response-c14n11" signs the Response with inclusive
	// canonicalisation (the verified element then keeps the spelling of the message).
	NS int `json:"ea_namespace_spelling,omitempty"`
	// Limit: MaximumDecompressedBodySize of the provider (it bounds how far a DEFLATE-compressed
	// message may inflate; these messages are not compressed, and the plaintext twin is held to
	// the same setting)
	Limit int64 `json:"max_decompressed_size,omitempty"`
}

func c11Plain(n, tail int) []byte {
	b := make([]byte, n)
	for i := range b {
		b[i] = byte('a' + i%23)
	}
	zeros := []int{0, 1, 2, 16}[tail]
	for i := 0; i < zeros && i < n; i++ {
		b[n-1-i] = 0
	}
	return b
}

func c11EncSpec(c c11Case, toKey string) idp.EncSpec {
	t := c11Transports()[c.Transport]
	e := idp.EncSpec{DataAlg: idp.AllDataAlgs[c.DataAlg], KeyAlg: t.KeyAlg, Digest: t.Digest, Placement: c.Placement, Fill: c.Fill, ToKey: toKey}
	if c.Recip {
		e.RecipCert = toKey
	}
	return e
}

func c11Exec(c c11Case) (keys []string, detail, class string) {
	t := c11Transports()[c.Transport]
	algName := strings.TrimPrefix(strings.TrimPrefix(idp.AllDataAlgs[c.DataAlg], "http://www.w3.org/2009/xmlenc11#"), "http://www.w3.org/2001/04/xmlenc#")
	trName := strings.TrimPrefix(strings.TrimPrefix(t.KeyAlg, "http://www.w3.org/2009/xmlenc11#"), "http://www.w3.org/2001/04/xmlenc#")
	if t.Digest != "" {
		trName += "+" + t.Digest[strings.LastIndex(t.Digest, "#")+1:]
	}
	if c.Level != "ValidateEncodedResponse" {
		pt := c11Plain(c.Len, c.Tail)
		el := idp.EncryptPlaintext(pt, c11EncSpec(c, "KS"))
		d := etree.NewDocument()
		d.SetRoot(el)
		b, _ := d.WriteToBytes()
		ea := &types.EncryptedAssertion{}
		if err := xmlUnmarshal(b, ea); err != nil {
			return nil, "harness: " + err.Error(), "harness-error"
		}
		cert := tls.Certificate{Certificate: [][]byte{world.Cert("KS").Raw}, PrivateKey: world.RSAKey("KS")}
		var got []byte
		var err error
		p := guard(func() { got, err = ea.DecryptBytes(&cert) })
		detail = fmt.Sprintf("case=%+v alg=%s transport=%s | err=%v panic=%q got=%d bytes want=%d", c, algName, trName, err, p, len(got), len(pt))
		switch {
		case p != "":
			return []string{"C11/DecryptBytes/panic/" + algName}, detail, "panic"
		case err != nil:
			return []string{fmt.Sprintf("C11/DecryptBytes/round-trip-fails/%s/%s", algName, trName)}, detail, "ERROR"
		case !bytes.Equal(got, pt):
			tail := []string{"", "/plaintext-ends-in-zero-byte", "/plaintext-ends-in-zero-bytes", "/plaintext-ends-in-16-zero-bytes"}[c.Tail]
			return []string{fmt.Sprintf("C11/DecryptBytes/plaintext-differs/%s%s", algName, tail)}, detail, "DIFFERS"
		}
		return nil, detail, "exact/" + algName
	}
	// ValidateEncodedResponse level: encrypted Response vs plaintext twin
	conf := world.SPConf{Store: []string{"K1"}, MaxSize: c.Limit}
	toKey := "KS"
	switch c.KeyCfg {
	case "field":
	case "field-custom":
		conf.PlainStores = true // a key store type of the deployment's own in the SPKeyStore field
	case "setter":
		conf.EncField, conf.EncSetter = "-", "KS"
	case "both-same":
		conf.EncSetter = "KS"
	case "both-different":
		conf.EncField, conf.EncSetter = "KX", "KS" // the setter's key is the one in force
	case "field-rsa3072":
		conf.EncField, toKey = "KM", "KM"
	case "field-rsa4096":
		conf.EncField, toKey = "KL", "KL"
	case "setter-rsa4096":
		conf.EncField, conf.EncSetter, toKey = "-", "KL", "KL"
	}
	mk := func(encrypted bool) string {
		n := 1
		if c.EncMask != 0 {
			n = 2
		}
		r := idp.DefaultResponse(n)
		uniq(&r, "c11")
		if n == 2 {
			r.Assertions[1].NameID = "second-subject@example.com"
		}
		rootSign := idp.SignSpec{Key: "K1"}
		if c.Signed == "response-c14n11" {
			rootSign.C14N = idp.C14N11
		}
		if strings.HasPrefix(c.Signed, "response") {
			r.Sign = rootSign
		} else {
			for i := range r.Assertions {
				r.Assertions[i].Sign = idp.SignSpec{Key: "K1"}
			}
		}
		if !encrypted {
			return idp.RenderResponse(r)
		}
		// build, then encrypt the assertion's standalone bytes padded with trailing whitespace to
		// the wanted residue modulo the block size
		unsignedR := r
		unsignedR.Sign = idp.SignSpec{}
		doc := idp.BuildResponse(unsignedR)
		for i, as := range oracle.Children(doc.Root(), oracle.NSA, "Assertion") {
			if c.EncMask != 0 && c.EncMask&(1<<i) == 0 {
				continue
			}
			pt := idp.StandaloneBytes(as)
			for len(pt)%16 != c.Len%16 {
				pt = append(pt, ' ')
			}
			es := c11EncSpec(c, toKey)
			if c.Mixed != 0 {
				first := (i == 0) == (c.Mixed == 1)
				es.KeyAlg, es.Digest, es.Placement = idp.OAEPMGF1P, "", "detached"
				if first {
					es.Digest, es.Placement = idp.EncDigSHA256, ""
				}
			}
			ea := idp.EncryptPlaintext(pt, es)
			idx := as.Index()
			doc.Root().RemoveChildAt(idx)
			doc.Root().InsertChildAt(idx, ea)
			idp.RespellEA(ea, doc.Root(), c.NS)
		}
		if strings.HasPrefix(c.Signed, "response") {
			idp.SignInPlace(doc.Root(), rootSign)
		}
		return idp.Encode(idp.Bytes(doc, idp.Layout{}), false)
	}
	resp, r := validateResponse(conf.Build(), mk(true))
	tresp, tr := validateResponse(conf.Build(), mk(false))
	detail = fmt.Sprintf("case=%+v alg=%s transport=%s | encrypted: accepted=%v err=%q panic=%q | twin: accepted=%v err=%q", c, algName, trName, r.Accepted(), r.Err.Text, r.Panic, tr.Accepted(), tr.Err.Text)
	switch {
	case r.Panic != "":
		return []string{"C11/ValidateEncodedResponse/panic"}, detail, "panic"
	case !tr.Accepted():
		return nil, "harness: plaintext twin rejected: " + detail, "harness-error"
	case !r.Accepted():
		return []string{fmt.Sprintf("C11/ValidateEncodedResponse/encrypted-rejected-but-twin-accepted/keycfg=%s", c.KeyCfg)}, detail, "TWIN-DIFFERS"
	}
	a, b := oracle.FromResponse(resp), oracle.FromResponse(tresp)
	if a.Key() != b.Key() || resp.SignatureValidated != tresp.SignatureValidated || resp.Assertions[0].SignatureValidated != tresp.Assertions[0].SignatureValidated {
		what := ""
		if len(a.Assertions) == len(b.Assertions) && len(a.Assertions) == 2 && a.Assertions[0] == b.Assertions[1] && a.Assertions[1] == b.Assertions[0] {
			what = "/assertion-order"
		}
		return []string{"C11/ValidateEncodedResponse/data-differs-from-twin" + what}, detail + fmt.Sprintf(" | first subject: encrypted=%q twin=%q", firstNameID(resp), firstNameID(tresp)), "TWIN-DIFFERS"
	}
	// the caller-facing summary too (it is taken from the first assertion)
	if c.EncMask != 0 {
		ia, ra := retrieveInfo(conf.Build(), mk(true))
		ib, rb := retrieveInfo(conf.Build(), mk(false))
		if ra.Accepted() != rb.Accepted() || (ra.Accepted() && ia.NameID != ib.NameID) {
			return []string{"C11/RetrieveAssertionInfo/summary-differs-from-twin"}, detail, "TWIN-DIFFERS"
		}
	}
	// key roll-over through the field on the instance that has already decrypted: the next
	// message, encrypted to the new key, is decrypted with the new key
	if (c.KeyCfg == "field" || c.KeyCfg == "field-custom") && c.EncMask == 0 {
		sp := conf.Build()
		validateResponse(sp, mk(true))
		old := sp.SPKeyStore
		sp.SPKeyStore = world.FieldKeyStore("KX", conf.PlainStores)
		toKey = "KX"
		resp2, r2 := validateResponse(sp, mk(true))
		toKey = "KS"
		sp.SPKeyStore = old // (in a live pass this is the long-lived instance: rolled back)
		if !r2.Accepted() {
			return []string{"C11/ValidateEncodedResponse/after-field-key-roll-over/encrypted-rejected-but-twin-accepted"}, detail + fmt.Sprintf(" | after SPKeyStore was replaced on the used instance: accepted=%v err=%q panic=%q", r2.Accepted(), r2.Err.Text, r2.Panic), "TWIN-DIFFERS"
		}
		if oracle.FromResponse(resp2).Key() != b.Key() {
			return []string{"C11/ValidateEncodedResponse/after-field-key-roll-over/data-differs-from-twin"}, detail, "TWIN-DIFFERS"
		}
	}
	// the *KeyStore given to the setter updated in place by its owner (same pointer, new key and
	// certificate) on the instance that has already decrypted
	if c.KeyCfg == "setter" && c.EncMask == 0 {
		sp := world.SPConf{Store: []string{"K1"}, EncField: "-"}.Build()
		ks := world.SetterKeyStore("KS")
		sp.SetSPKeyStore(ks)
		validateResponse(sp, mk(true))
		*ks = *world.SetterKeyStore("KX")
		toKey = "KX"
		resp3, r3 := validateResponse(sp, mk(true))
		toKey = "KS"
		if !r3.Accepted() {
			return []string{"C11/ValidateEncodedResponse/after-keystore-updated-in-place/encrypted-rejected-but-twin-accepted"}, detail + fmt.Sprintf(" | after the KeyStore given to SetSPKeyStore was updated in place: accepted=%v err=%q panic=%q", r3.Accepted(), r3.Err.Text, r3.Panic), "TWIN-DIFFERS"
		}
		if oracle.FromResponse(resp3).Key() != b.Key() {
			return []string{"C11/ValidateEncodedResponse/after-keystore-updated-in-place/data-differs-from-twin"}, detail, "TWIN-DIFFERS"
		}
	}
	return nil, detail, "twin-equal/" + c.KeyCfg
}

var c11Memo = map[string][]c11Case{}

func c11Replay(raw json.RawMessage) ([]string, string) {
	get := func(t string) []c11Case {
		if d, ok := c11Memo[t]; ok {
			return d
		}
		all, n1 := c11Cases(t == "thorough")
		c11Memo[t] = all[n1:]
		return c11Memo[t]
	}
	if keys, detail, ok := liveReplay(raw, "C11", func(t string) int { return len(get(t)) }, func(t string, j int) string {
		k, _, class := c11Exec(get(t)[j])
		return sig(k, class)
	}); ok {
		return keys, detail
	}
	var h c11Held
	if json.Unmarshal(raw, &h) == nil && h.Held {
		return c11HeldExec(h)
	}
	var c c11Case
	if err := json.Unmarshal(raw, &c); err != nil {
		return nil, err.Error()
	}
	k, d, _ := c11Exec(c)
	return k, d
}

func firstNameID(r *types.Response) string {
	if r == nil || len(r.Assertions) == 0 || r.Assertions[0].Subject == nil || r.Assertions[0].Subject.NameID == nil {
		return ""
	}
	return r.Assertions[0].Subject.NameID.Value
}

func c11Cases(thorough bool) (cases []c11Case, n1 int) {
	mc.Enumerate(-1, nil, func(ch *mc.Chooser) {
		c := c11Case{Level: "DecryptBytes"}
		c.DataAlg = ch.Choose("dataalg", 5)
		c.Transport = ch.Choose("transport", 9)
		c.Placement = []string{"", "detached"}[ch.Choose("placement", 2)]
		c.Recip = ch.Bool("recip")
		c.Tail = ch.Choose("tail", 4)
		c.Fill = []string{"", "pkcs7", "ff"}[ch.Choose("fill", 3)]
		if strings.Contains(idp.AllDataAlgs[c.DataAlg], "gcm") && c.Fill != "" {
			return // fill only exists for CBC
		}
		for n := 0; n <= 48; n++ {
			cc := c
			cc.Len = n
			cases = append(cases, cc)
		}
	})
	// lengths around buffer and block-count boundaries
	for alg := 0; alg < 5; alg++ {
		for _, tr := range []int{0, 8} {
			for _, n := range []int{255, 256, 257, 4095, 4096, 4097, 65535, 65536, 65537, 1<<20 + 1} {
				for _, tail := range []int{0, 3} {
					cases = append(cases, c11Case{Level: "DecryptBytes", DataAlg: alg, Transport: tr, Len: n, Tail: tail})
				}
			}
		}
	}
	n1 = len(cases)
	mc.Enumerate(-1, nil, func(ch *mc.Chooser) {
		c := c11Case{Level: "ValidateEncodedResponse"}
		c.DataAlg = ch.Choose("dataalg", 5)
		c.Transport = ch.Choose("transport", 9)
		c.KeyCfg = []string{"field", "setter", "both-same", "both-different", "field-custom"}[ch.Choose("keycfg", 5)]
		c.Signed = []string{"assertion", "response"}[ch.Choose("signed", 2)]
		c.Placement = []string{"", "detached"}[ch.Choose("placement", 2)]
		for res := 0; res < 16; res++ {
			if !thorough && res%4 != 1 && c.Placement == "detached" {
				continue
			}
			cc := c
			cc.Len = res
			cases = append(cases, cc)
		}
	})
	// two assertions, every non-empty subset of them encrypted
	for _, signed := range []string{"assertion", "response"} {
		for mask := 1; mask <= 3; mask++ {
			for _, alg := range []int{0, 3} {
				for _, kc := range []string{"field", "setter"} {
					cases = append(cases, c11Case{Level: "ValidateEncodedResponse", DataAlg: alg, KeyCfg: kc, Signed: signed, Len: 1, EncMask: mask})
					if mask == 3 {
						cases = append(cases, c11Case{Level: "ValidateEncodedResponse", DataAlg: alg, KeyCfg: kc, Signed: signed, Len: 1, EncMask: 3, Mixed: 1},
							c11Case{Level: "ValidateEncodedResponse", DataAlg: alg, KeyCfg: kc, Signed: signed, Len: 1, EncMask: 3, Mixed: 2})
					}
				}
			}
		}
	}
	// a decompression limit smaller than the message: nothing here is compressed
	for _, lim := range []int64{1, 512, 4096} {
		for alg := 0; alg < 5; alg++ {
			for _, signed := range []string{"assertion", "response"} {
				for _, pl := range []string{"", "detached"} {
					for _, kc := range []string{"field", "setter"} {
						cases = append(cases, c11Case{Level: "ValidateEncodedResponse", DataAlg: alg, KeyCfg: kc, Signed: signed, Placement: pl, Len: 1, Limit: lim})
					}
				}
			}
		}
	}
	// larger SP keys: the transported key is as long as the modulus
	for _, kc := range []string{"field-rsa3072", "field-rsa4096", "setter-rsa4096"} {
		for alg := 0; alg < 5; alg++ {
			for tr := 0; tr < 9; tr++ {
				for _, pl := range []string{"", "detached"} {
					cases = append(cases, c11Case{Level: "ValidateEncodedResponse", DataAlg: alg, Transport: tr, KeyCfg: kc, Signed: "assertion", Placement: pl, Len: 1})
				}
			}
		}
	}
	// namespace spellings of the EncryptedAssertion element x how the Response is signed
	for ns := 0; ns <= 3; ns++ {
		for _, signed := range []string{"assertion", "response", "response-c14n11"} {
			if ns == 0 && signed != "response-c14n11" {
				continue // enumerated above
			}
			for _, alg := range []int{0, 3} {
				for _, pl := range []string{"", "detached"} {
					for _, kc := range []string{"field", "setter"} {
						for _, mask := range []int{0, 3} {
							cases = append(cases, c11Case{Level: "ValidateEncodedResponse", DataAlg: alg, KeyCfg: kc, Signed: signed, Placement: pl, Len: 1, EncMask: mask, NS: ns})
						}
					}
				}
			}
		}
	}
	return cases, n1
}

// c11Held: a decryption result is kept by its caller while the next assertion is decrypted; it
// must still be the first plaintext afterwards.
type c11Held struct {
	Held    bool `json:"held_result"`
	DataAlg int  `json:"data_alg"`
	Len     int  `json:"len"`
}

func c11HeldExec(c c11Held) (keys []string, detail string) {
	cert := tls.Certificate{Certificate: [][]byte{world.Cert("KS").Raw}, PrivateKey: world.RSAKey("KS")}
	mkEA := func(pt []byte) *types.EncryptedAssertion {
		d := etree.NewDocument()
		d.SetRoot(idp.EncryptPlaintext(pt, idp.EncSpec{DataAlg: idp.AllDataAlgs[c.DataAlg], ToKey: "KS"}))
		b, _ := d.WriteToBytes()
		ea := &types.EncryptedAssertion{}
		xmlUnmarshal(b, ea)
		return ea
	}
	pt1 := c11Plain(c.Len, 0)
	pt2 := bytes.ToUpper(c11Plain(c.Len+7, 0))
	var got1, got2 []byte
	var e1, e2 error
	p := guard(func() {
		got1, e1 = mkEA(pt1).DecryptBytes(&cert)
		got2, e2 = mkEA(pt2).DecryptBytes(&cert)
	})
	alg := idp.AllDataAlgs[c.DataAlg]
	alg = alg[strings.LastIndex(alg, "#")+1:]
	detail = fmt.Sprintf("case=%+v alg=%s | first: err=%v, second: err=%v panic=%q | first result after the second call equals its plaintext: %v", c, alg, e1, e2, p, bytes.Equal(got1, pt1))
	if p != "" || e1 != nil || e2 != nil {
		return []string{"C11/DecryptBytes/held-result/error-or-panic/" + alg}, detail
	}
	if !bytes.Equal(got1, pt1) || !bytes.Equal(got2, pt2) {
		return []string{"C11/DecryptBytes/result-held-by-the-caller-changed-by-the-next-decryption/" + alg}, detail
	}
	return nil, detail
}

func c11Run(r *mc.Run) {
	r.Rule = "DecryptBytes level: full product data algorithm(5) x key transport/digest(9: OAEP-MGF1P and OAEP 1.1 with digest absent/sha1/sha256/sha512, RSA 1.5) x EncryptedKey placement(2) x recipient certificate(2) x plaintext length 0..48 (and 255..257, 4095..4097, 65535..65537, 1 MiB + 1) x tail(4: non-zero, 1, 2, 16 zero bytes) x CBC pad fill(3: zero, PKCS#7, 0xff), oracle = an independent XML-Enc encryptor (idp/enc.go): decrypted bytes = plaintext exactly, and still so after the next decryption (results held by the caller); ValidateEncodedResponse level: 45 combinations x 16 residues mod 16 x placement(2) x signing(2) x 5 key configurations (field, setter, both same, both different, field holding a key store of a custom type), plus Responses with two assertions of which the first, the second or both are encrypted (2 algorithms x 2 key configurations x 2 signing placements), oracle = plaintext twin (same outcome, same data in the same order, same summary); field-configured keys are also rolled over on the used instance, a setter-configured KeyStore is also updated in place; two encrypted assertions also with different key placement and digest; providers with a decompression limit of 1, 512 and 4096 bytes (the messages are not compressed) x algorithm(5) x signing(2) x placement(2) x key API(2); SP keys of RSA-3072 and RSA-4096 (field, setter) x algorithm(5) x transport(9) x placement(2); the EncryptedAssertion's namespace prefixes declared on the element, on the Response root only (its own / all three), or as a local default namespace x signing(3: assertions, Response with exclusive, Response with inclusive canonicalisation) x algorithm(2) x placement(2) x key API(2) x one or two encrypted assertions. non-trivial = decryption reached the symmetric step; distinct = distinct case"
	r.Assume("for non-default OAEP digests MGF1 uses the same hash (the reading under which the library's exported identifiers interoperate with itself)")
	cases, n1 := c11Cases(r.Thorough())
	r.Set("decryptbytes_cases", n1)
	r.Set("validate_cases", len(cases)-n1)
	r.State(len(cases))
	fresh := make([]string, len(cases))
	defer func() {
		// live-instance pass over the ValidateEncodedResponse-level cases (one long-lived SP per
		// key configuration)
		livePass(r, len(cases)-n1, 3, 90*time.Second, func(j int) string {
			keys, _, class := c11Exec(cases[n1+j])
			return sig(keys, class)
		}, fresh[n1:])
	}()
	// sequential: results held across the next decryption
	for alg := range idp.AllDataAlgs {
		for _, n := range []int{16, 33, 100, 4096} {
			h := c11Held{Held: true, DataAlg: alg, Len: n}
			keys, detail := c11HeldExec(h)
			r.Eval(2)
			r.State(1)
			r.Transition(2)
			r.Bucket("held-result")
			r.Nontrivial(fmt.Sprintf("%+v", h))
			for _, k := range keys {
				r.Violation(k, detail, h)
			}
		}
	}
	r.Par(len(cases), func(i int) {
		c := cases[i]
		keys, detail, class := c11Exec(c)
		fresh[i] = sig(keys, class)
		r.Eval(1)
		r.Transition(1)
		r.Bucket(class)
		r.Nontrivial(fmt.Sprintf("%+v", c))
		if i%9001 == 0 {
			r.Sample(map[string]interface{}{"case": c, "observed": detail[:min(len(detail), 400)]})
		}
		for _, k := range keys {
			r.Violation(k, detail[:min(len(detail), 1200)], c)
		}
	})
}

func init() {
	register("C11", &check{run: c11Run, replay: c11Replay, quick: 300 * time.Second, thor: 1200 * time.Second})
}
