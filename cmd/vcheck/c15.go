package main

import (
	"encoding/json"
	"fmt"
	"sort"
	"strings"
	"sync"
	"time"
	_ "time/tzdata"

	"github.com/beevik/etree"
	saml2 "github.com/russellhaering/gosaml2"

	"verif/idp"
	"verif/mc"
	"verif/recipient"
	"verif/world"
)

// C15 — outgoing messages are well-formed, schema-ordered and faithful to configuration.

var c15Alphabet = []string{"plain", "", "a&b", "<x>", `"q"`, "'a'", " lead trail ", "ünï日本😀", "a\tb", "a\nb", "a\rb", "]]>", "--", `"><evil xmlns="urn:x"/><!--`, `<evil xmlns="urn:x">payload</evil>`, "&#13;&lt;", strings.Repeat("long-é&<-", 500)}

var c15Clocks = []struct {
	Name string
	T    time.Time
}{
	{"utc", world.T0},
	{"+05:30", world.T0.In(time.FixedZone("IST", 5*3600+1800))},
	{"-08:00-before-local-midnight", time.Date(2030, 1, 1, 23, 59, 59, 0, time.FixedZone("PST", -8*3600))},
	{"sub-second", world.T0.Add(750 * time.Millisecond)},
	{"-04:00-dst-zone", time.Date(2030, 7, 1, 1, 30, 0, 999999999, time.FixedZone("EDT", -4*3600))},
	// a location that observes daylight saving time, a few days before each transition
	// (calendar arithmetic in local time is then off by an hour)
	{"new-york-before-spring-forward", time.Date(2030, 3, 7, 12, 0, 0, 0, nyc())},
	{"new-york-before-fall-back", time.Date(2030, 10, 30, 12, 0, 0, 0, nyc())},
}

func nyc() *time.Location {
	l, err := time.LoadLocation("America/New_York")
	if err != nil {
		panic(err)
	}
	return l
}

// string inputs, by index
const (
	sACS = iota
	sSSO
	sSLO
	sSPIssuer
	sIDPIssuer
	sNameIDFormat
	sContext
	sComparison
	sNameID
	sSessionIndex
	sStatus
	sReqID
	sCount
)

// which string inputs end up in attribute values (the others become element text)
var c15AttrValued = map[int]bool{sACS: true, sSSO: true, sSLO: true, sNameIDFormat: true, sComparison: true, sStatus: true, sReqID: true}

var c15StrNames = []string{"ACS-URL", "IdP-SSO-URL", "IdP-SLO-URL", "SP-issuer", "IdP-issuer", "NameID-format", "authn-context", "comparison", "NameID", "session-index", "status-code", "InResponseTo"}
var c15Defaults = []string{world.ACS, world.IDPSSO, world.IDPSLO, world.SPIssuer, world.IDPIssuer, saml2.NameIdFormatPersistent, saml2.AuthnContextPasswordProtectedTransport, saml2.AuthnPolicyMatchExact, "alice@example.com", "_session-1", saml2.StatusCodeSuccess, "_request-1"}

type c15Case struct {
	Kind       string `json:"kind"` // AuthnRequest | LogoutRequest | LogoutResponse
	Signed     bool   `json:"signed"`
	Str        []int  `json:"str"` // per string input: 0 default, k>0 alphabet[k-1]
	ForceAuthn bool   `json:"force_authn"`
	IsPassive  bool   `json:"is_passive"`
	RAC        int    `json:"requested_authn_context"` // 0 nil, 1 no contexts, 2 one, 3 two
	Clock      int    `json:"clock"`
	AsString   bool   `json:"as_string"` // AuthnRequest through BuildAuthRequest (string) instead of the document
}

func (c c15Case) str(i int) string {
	if c.Str[i] == 0 {
		return c15Defaults[i]
	}
	return c15Alphabet[c.Str[i]-1]
}

func c15SP(c c15Case) *saml2.SAMLServiceProvider {
	sp := world.SP()
	sp.Clock = world.Clock(c15Clocks[c.Clock].T)
	sp.AssertionConsumerServiceURL = c.str(sACS)
	sp.IdentityProviderSSOURL = c.str(sSSO)
	sp.IdentityProviderSLOURL = c.str(sSLO)
	sp.ServiceProviderIssuer = c.str(sSPIssuer)
	sp.IdentityProviderIssuer = c.str(sIDPIssuer)
	sp.NameIdFormat = c.str(sNameIDFormat)
	sp.ForceAuthn = c.ForceAuthn
	sp.IsPassive = c.IsPassive
	sp.SignAuthnRequests = c.Signed
	switch c.RAC {
	case 1:
		sp.RequestedAuthnContext = &saml2.RequestedAuthnContext{Comparison: c.str(sComparison)}
	case 2:
		sp.RequestedAuthnContext = &saml2.RequestedAuthnContext{Comparison: c.str(sComparison), Contexts: []string{c.str(sContext)}}
	case 3:
		sp.RequestedAuthnContext = &saml2.RequestedAuthnContext{Comparison: c.str(sComparison), Contexts: []string{c.str(sContext), "urn:second:" + c.str(sContext)}}
	}
	return sp
}

// c15Build calls the builder and serialises the result the way the library itself does
// before putting it on the wire (Document.WriteToString with the document's own settings).
func c15Build(c c15Case) (out string, panicMsg string, err error) {
	return c15BuildOn(c15SP(c), c)
}

// c15BuildOn builds on a given (possibly already used) instance.
func c15BuildOn(sp *saml2.SAMLServiceProvider, c c15Case) (out string, panicMsg string, err error) {
	panicMsg = guard(func() {
		var doc *etree.Document
		switch c.Kind {
		case "AuthnRequest":
			if c.AsString {
				out, err = sp.BuildAuthRequest()
				return
			}
			if c.Signed {
				doc, err = sp.BuildAuthRequestDocument()
			} else {
				doc, err = sp.BuildAuthRequestDocumentNoSig()
			}
		case "LogoutRequest":
			if c.Signed {
				doc, err = sp.BuildLogoutRequestDocument(c.str(sNameID), c.str(sSessionIndex))
			} else {
				doc, err = sp.BuildLogoutRequestDocumentNoSig(c.str(sNameID), c.str(sSessionIndex))
			}
		case "LogoutResponse":
			if c.Signed {
				doc, err = sp.BuildLogoutResponseDocument(c.str(sStatus), c.str(sReqID))
			} else {
				doc, err = sp.BuildLogoutResponseDocumentNoSig(c.str(sStatus), c.str(sReqID))
			}
		}
		if err == nil && doc != nil {
			out, err = doc.WriteToString()
		}
	})
	return
}

type c15Want struct {
	attrs    map[string]string
	children []c15Child
}
type c15Child struct {
	ns, local string
	text      *string
	attrs     map[string]string
	kids      []c15Child
}

func sp(s string) *string { return &s }

func c15Expect(c c15Case) c15Want {
	issuer := c.str(sSPIssuer)
	if issuer == "" {
		issuer = c.str(sIDPIssuer)
	}
	instant := c15Clocks[c.Clock].T.UTC().Format("2006-01-02T15:04:05Z")
	w := c15Want{attrs: map[string]string{"Version": "2.0", "IssueInstant": instant}}
	w.children = append(w.children, c15Child{ns: idp.NSA, local: "Issuer", text: sp(issuer)})
	switch c.Kind {
	case "AuthnRequest":
		w.attrs["ProtocolBinding"] = saml2.BindingHttpPost
		w.attrs["AssertionConsumerServiceURL"] = c.str(sACS)
		w.attrs["Destination"] = c.str(sSSO)
		if c.ForceAuthn {
			w.attrs["ForceAuthn"] = "true"
		}
		if c.IsPassive {
			w.attrs["IsPassive"] = "true"
		}
		pol := c15Child{ns: idp.NSP, local: "NameIDPolicy", attrs: map[string]string{"AllowCreate": "true"}}
		if c.str(sNameIDFormat) != "" {
			pol.attrs["Format"] = c.str(sNameIDFormat)
		}
		w.children = append(w.children, pol)
		if c.RAC > 0 {
			rac := c15Child{ns: idp.NSP, local: "RequestedAuthnContext", attrs: map[string]string{"Comparison": c.str(sComparison)}}
			if c.RAC >= 2 {
				rac.kids = append(rac.kids, c15Child{ns: idp.NSA, local: "AuthnContextClassRef", text: sp(c.str(sContext))})
			}
			if c.RAC == 3 {
				rac.kids = append(rac.kids, c15Child{ns: idp.NSA, local: "AuthnContextClassRef", text: sp("urn:second:" + c.str(sContext))})
			}
			w.children = append(w.children, rac)
		}
	case "LogoutRequest":
		w.attrs["Destination"] = c.str(sSLO)
		w.children = append(w.children,
			c15Child{ns: idp.NSA, local: "NameID", text: sp(c.str(sNameID)), attrs: map[string]string{"Format": c.str(sNameIDFormat)}},
			c15Child{ns: idp.NSP, local: "SessionIndex", text: sp(c.str(sSessionIndex))})
	case "LogoutResponse":
		w.attrs["Destination"] = c.str(sSLO)
		w.attrs["InResponseTo"] = c.str(sReqID)
		w.children = append(w.children, c15Child{ns: idp.NSP, local: "Status", kids: []c15Child{{ns: idp.NSP, local: "StatusCode", attrs: map[string]string{"Value": c.str(sStatus)}}}})
	}
	return w
}

func c15MatchChild(n *recipient.Node, w c15Child, path string) []string {
	var bad []string
	if n.NS != w.ns || n.Local != w.local {
		return []string{fmt.Sprintf("%s: element {%s}%s where {%s}%s expected (schema order)", path, n.NS, n.Local, w.ns, w.local)}
	}
	if w.text != nil && n.Text != *w.text {
		bad = append(bad, fmt.Sprintf("%s/%s text %q != %q", path, w.local, n.Text, *w.text))
	}
	// attributes the statement speaks of must be there exactly once with the exact value; others
	// are judged by the skeleton comparison (they may not depend on a value)
	for k, v := range w.attrs {
		got, cnt := n.Attr(k)
		if cnt != 1 || got != v {
			bad = append(bad, fmt.Sprintf("%s/%s@%s = %q (x%d) != %q", path, w.local, k, got, cnt, v))
		}
	}
	if w.local == "NameIDPolicy" {
		if _, want := w.attrs["Format"]; !want {
			if got, cnt := n.Attr("Format"); cnt > 0 && got != "" {
				bad = append(bad, fmt.Sprintf("%s/NameIDPolicy@Format = %q although no NameID format is configured", path, got))
			}
		}
	}
	if len(n.Children) != len(w.kids) {
		bad = append(bad, fmt.Sprintf("%s/%s has %d child elements, %d expected", path, w.local, len(n.Children), len(w.kids)))
	} else {
		for i := range w.kids {
			bad = append(bad, c15MatchChild(n.Children[i], w.kids[i], path+"/"+w.local)...)
		}
	}
	return bad
}

// c15Rank is the position of each child element in the schema's sequence for the message kind.
var c15Rank = map[string]map[string]int{
	"AuthnRequest":   {idp.NSA + " Issuer": 0, idp.NSDS + " Signature": 1, idp.NSP + " Extensions": 2, idp.NSA + " Subject": 3, idp.NSP + " NameIDPolicy": 4, idp.NSA + " Conditions": 5, idp.NSP + " RequestedAuthnContext": 6, idp.NSP + " Scoping": 7},
	"LogoutRequest":  {idp.NSA + " Issuer": 0, idp.NSDS + " Signature": 1, idp.NSP + " Extensions": 2, idp.NSA + " BaseID": 3, idp.NSA + " NameID": 3, idp.NSA + " EncryptedID": 3, idp.NSP + " SessionIndex": 4},
	"LogoutResponse": {idp.NSA + " Issuer": 0, idp.NSDS + " Signature": 1, idp.NSP + " Extensions": 2, idp.NSP + " Status": 3},
}

// c15Skeleton is the structure of a document with every value removed: element names, the
// sorted names of their attributes, nesting and order (a Signature is one opaque node).
func c15Skeleton(n *recipient.Node) string {
	var b strings.Builder
	var rec func(n *recipient.Node)
	rec = func(n *recipient.Node) {
		b.WriteString("<{" + n.NS + "}" + n.Local)
		names := []string{}
		for _, a := range n.Attrs {
			names = append(names, "{"+a.NS+"}"+a.Local)
		}
		sort.Strings(names)
		b.WriteString(" " + strings.Join(names, " ") + ">")
		if !(n.NS == idp.NSDS && n.Local == "Signature") {
			for _, k := range n.Children {
				rec(k)
			}
		}
		if strings.TrimSpace(n.Text) != "" {
			b.WriteString("#text")
		}
		b.WriteString("</>")
	}
	rec(n)
	return b.String()
}

var c15Baselines sync.Map

// c15BaselineSkeleton is the skeleton of the output for the same configuration with every
// non-empty string input replaced by its plain default.
func c15BaselineSkeleton(c c15Case) (string, error) {
	b := c
	b.Str = make([]int, len(c.Str))
	for i := range c.Str {
		if c.str(i) == "" {
			b.Str[i] = c.Str[i]
		}
	}
	b.Clock = 0
	key := fmt.Sprintf("%+v", b)
	if v, ok := c15Baselines.Load(key); ok {
		return v.(string), nil
	}
	out, p, err := c15Build(b)
	if p != "" || err != nil {
		return "", fmt.Errorf("baseline build: err=%v panic=%q", err, p)
	}
	root, err := recipient.Parse([]byte(out))
	if err != nil {
		return "", fmt.Errorf("baseline output not well-formed: %v", err)
	}
	sk := c15Skeleton(root)
	c15Baselines.Store(key, sk)
	return sk, nil
}

// c15Judge parses the output with encoding/xml and compares it with the expectation: the
// attributes and children the statement speaks of, exactly; schema order of all children; and
// the same skeleton as for plain values (no value may alter the structure). Attributes and
// elements beyond those, identical for every value, are not the property's business.
func c15Judge(c c15Case, out string) (bad []string) {
	root, err := recipient.Parse([]byte(out))
	if err != nil {
		return []string{"not well-formed: " + err.Error()}
	}
	if root.NS != idp.NSP || root.Local != c.Kind {
		bad = append(bad, fmt.Sprintf("root is {%s}%s", root.NS, root.Local))
	}
	w := c15Expect(c)
	id, cnt := root.Attr("ID")
	if cnt != 1 || id == "" {
		bad = append(bad, "ID attribute missing")
	}
	for k, v := range w.attrs {
		got, cnt := root.Attr(k)
		if cnt != 1 || got != v {
			bad = append(bad, fmt.Sprintf("root@%s = %q (x%d) != %q", k, got, cnt, v))
		}
	}
	for _, flag := range []string{"ForceAuthn", "IsPassive"} {
		if _, want := w.attrs[flag]; !want {
			if got, cnt := root.Attr(flag); cnt > 0 && got != "false" && got != "0" {
				bad = append(bad, fmt.Sprintf("root@%s = %q although the flag is off", flag, got))
			}
		}
	}
	// children: Issuer, [Signature], then the rest in schema order
	kids := root.Children
	var rest []*recipient.Node
	sigAt := -1
	lastRank := -1
	for i, k := range kids {
		rank, known := c15Rank[c.Kind][k.NS+" "+k.Local]
		if !known {
			bad = append(bad, fmt.Sprintf("child {%s}%s is not in the schema's sequence for %s (schema order)", k.NS, k.Local, c.Kind))
		} else if rank < lastRank {
			bad = append(bad, fmt.Sprintf("child %s comes after a later element of the schema's sequence (schema order)", k.Local))
		} else {
			lastRank = rank
		}
		if k.NS == idp.NSDS && k.Local == "Signature" {
			if sigAt >= 0 {
				bad = append(bad, "more than one Signature")
			}
			sigAt = i
			continue
		}
		rest = append(rest, k)
	}
	if c.Signed {
		if sigAt != 1 {
			bad = append(bad, fmt.Sprintf("Signature is child #%d, expected immediately after Issuer (#1)", sigAt))
		}
	} else if sigAt >= 0 {
		bad = append(bad, "unexpected Signature in an unsigned document")
	}
	// the expected children, in order, among the rest (elements the statement does not speak
	// of may sit between them where the schema allows)
	j := 0
	for _, k := range rest {
		if j < len(w.children) && k.NS == w.children[j].ns && k.Local == w.children[j].local {
			bad = append(bad, c15MatchChild(k, w.children[j], c.Kind)...)
			j++
			continue
		}
		for _, wc := range w.children {
			if k.NS == wc.ns && k.Local == wc.local {
				bad = append(bad, fmt.Sprintf("children: a second or misplaced %s (schema order)", k.Local))
			}
		}
		if c.RAC == 0 && k.Local == "RequestedAuthnContext" {
			bad = append(bad, "children: RequestedAuthnContext although none is configured")
		}
	}
	if j != len(w.children) {
		names := []string{}
		for _, k := range rest {
			names = append(names, k.Local)
		}
		bad = append(bad, fmt.Sprintf("children %v; %s missing", names, w.children[j].local))
	}
	if len(bad) == 0 {
		base, berr := c15BaselineSkeleton(c)
		if berr != nil {
			return []string{"structure: " + berr.Error()}
		}
		if sk := c15Skeleton(root); sk != base {
			bad = append(bad, fmt.Sprintf("structure differs from the same configuration with plain values (a value altered the document structure): %s vs %s", sk, base))
		}
	}
	return bad
}

func c15Exec(c c15Case) (keys []string, detail, class string) {
	out, p, err := c15Build(c)
	devs := []string{}
	special := ""
	for i, k := range c.Str {
		if k != 0 {
			devs = append(devs, fmt.Sprintf("%s=%q", c15StrNames[i], c15Alphabet[k-1]))
			if strings.Contains(c15Alphabet[k-1], "\r") {
				special = "/carriage-return"
			} else if strings.ContainsAny(c15Alphabet[k-1], "\t\n") && special == "" {
				special = "/tab-or-newline"
			}
		}
	}
	detail = fmt.Sprintf("kind=%s signed=%v string=%v force=%v passive=%v rac=%d clock=%s via-string=%v | err=%v panic=%q", c.Kind, c.Signed, devs, c.ForceAuthn, c.IsPassive, c.RAC, c15Clocks[c.Clock].Name, c.AsString, err, p)
	kp := "C15/" + c.Kind + "/"
	if p != "" {
		return []string{kp + "panic"}, detail, "panic"
	}
	if err != nil {
		return []string{kp + "builder-error"}, detail, "ERROR"
	}
	bad := c15Judge(c, out)
	if len(bad) > 0 {
		detail += " | " + strings.Join(bad, "; ")
		what := "structure-or-value"
		switch {
		case strings.HasPrefix(bad[0], "not well-formed"):
			what = "not-well-formed"
		case strings.HasPrefix(bad[0], "structure"):
			what = "structure-altered-by-value"
		case strings.Contains(bad[0], "although"):
			what = "attribute-set-differs"
		case strings.Contains(bad[0], "schema order") || strings.Contains(bad[0], "Signature is child"):
			what = "schema-order"
		case strings.Contains(bad[0], "root@IssueInstant"):
			what = "IssueInstant"
		case strings.Contains(bad[0], "text") || strings.Contains(bad[0], "@"):
			what = "value-not-recovered"
		}
		if what == "value-not-recovered" && special != "" {
			// name where the value sits: attribute values and element text are written by
			// different code paths of the serialiser
			if strings.Contains(bad[0], "@") {
				special += "-in-attribute"
			} else {
				special += "-in-text"
			}
		}
		return []string{kp + what + special}, detail, "DIFFERS"
	}
	if hz := recipient.RawHazards([]byte(out)); len(hz) > 0 {
		detail += " | " + strings.Join(hz, ",")
		return []string{kp + "conforming-parser-would-normalise/" + hz[0]}, detail, "HAZARD"
	}
	// second call on the SAME instance, one hour later and with other caller-supplied values:
	// the output must follow the clock and the arguments of this call
	if special == "" {
		c2 := c
		c2.Str = append([]int(nil), c.Str...)
		c2.Clock = (c.Clock + 1) % len(c15Clocks)
		for _, i := range []int{sNameID, sSessionIndex, sStatus, sReqID} {
			c2.Str[i] = 1 + (c.Str[i]+2)%5 // another value of the alphabet without control characters
		}
		// ... and, every second case, a reconfigured provider: other endpoints, issuers, format,
		// contexts and flags on the instance that has already built a message
		reconfigure := (c.Clock+len(c.Kind))%2 == 0
		if reconfigure {
			for _, i := range []int{sACS, sSSO, sSLO, sSPIssuer, sIDPIssuer, sNameIDFormat, sContext, sComparison} {
				c2.Str[i] = 1 + (c.Str[i]+3)%5
				if c2.Str[i] == 2 { // the empty string switches elements off; stay with values
					c2.Str[i] = 3
				}
			}
			c2.ForceAuthn, c2.IsPassive = !c.ForceAuthn, !c.IsPassive
		}
		sp := c15SP(c)
		c15BuildOn(sp, c)
		if reconfigure {
			copyConfig(sp, c15SP(c2))
		}
		sp.Clock = world.Clock(c15Clocks[c2.Clock].T)
		out2, p2, err2 := c15BuildOn(sp, c2)
		if p2 != "" || err2 != nil {
			return []string{kp + "second-call-on-same-instance/error-or-panic"}, detail + fmt.Sprintf(" | second call: err=%v panic=%q", err2, p2), "DIFFERS"
		}
		if bad2 := c15Judge(c2, out2); len(bad2) > 0 {
			return []string{kp + "second-call-on-same-instance/output-does-not-follow-this-call"}, detail + " | second call on the same instance: " + strings.Join(bad2, "; "), "DIFFERS"
		}
	}
	return nil, detail, "faithful/" + c.Kind
}

func c15Replay(raw json.RawMessage) ([]string, string) {
	var c c15Case
	if err := json.Unmarshal(raw, &c); err != nil {
		return nil, err.Error()
	}
	k, d, _ := c15Exec(c)
	return k, d
}

func c15Cases(r *mc.Run, bound int) []c15Case {
	var cases []c15Case
	kinds := []string{"AuthnRequest", "LogoutRequest", "LogoutResponse"}
	// full product of the boolean / optional settings on default strings
	mc.Enumerate(-1, r.Expired, func(ch *mc.Chooser) {
		c := c15Case{Str: make([]int, sCount)}
		c.Kind = kinds[ch.Choose("kind", 3)]
		c.Signed = ch.Bool("signed")
		c.ForceAuthn = ch.Bool("force")
		c.IsPassive = ch.Bool("passive")
		c.RAC = ch.Choose("rac", 4)
		if ch.Bool("nameidformat-empty") {
			c.Str[sNameIDFormat] = 2
		}
		if ch.Bool("spissuer-empty") {
			c.Str[sSPIssuer] = 2
		}
		c.AsString = ch.Bool("as-string")
		if c.AsString && c.Kind != "AuthnRequest" {
			return
		}
		cases = append(cases, c)
	})
	// deviation-bounded strings and clocks
	for _, kind := range kinds {
		for _, signed := range []bool{false, true} {
			kind, signed := kind, signed
			mc.Enumerate(bound, r.Expired, func(ch *mc.Chooser) {
				c := c15Case{Kind: kind, Signed: signed, Str: make([]int, sCount), RAC: 3}
				for i := 0; i < sCount; i++ {
					c.Str[i] = ch.Choose(c15StrNames[i], len(c15Alphabet)+1)
				}
				c.Clock = ch.Choose("clock", len(c15Clocks))
				cases = append(cases, c)
			})
		}
	}
	return cases
}

func c15Run(r *mc.Run) {
	bound := 2
	if r.Thorough() {
		bound = 3
	}
	r.Rule = "full product of kind(3) x signed builder(2) x ForceAuthn x IsPassive x RequestedAuthnContext(4) x NameID format empty x SP issuer empty x string/document builder, plus every combination of <=2 (quick) / <=3 (thorough) deviations over 12 string inputs (17-value special-character alphabet: markup, quotes, whitespace incl. TAB/LF/CR, non-ASCII, ]]>, --, an element-injection payload) and 5 clocks, for 3 kinds x signed/unsigned; oracle = encoding/xml token walk: root, exact attribute set, schema order, exact values, element counts, Signature right after Issuer, no raw CR / attribute TAB,LF; each case is followed by a second call on the same instance one clock step later with other arguments, which must follow that call; non-trivial = the builder returned a document that was parsed and compared; distinct = distinct case"
	r.Set("string_deviation_bound", bound)
	cases := c15Cases(r, bound)
	r.State(len(cases))
	r.Par(len(cases), func(i int) {
		c := cases[i]
		keys, detail, class := c15Exec(c)
		r.Eval(1)
		r.Transition(1)
		r.Bucket(class)
		if class != "ERROR" && class != "panic" {
			r.Nontrivial(fmt.Sprintf("%+v", c))
		}
		if i%3001 == 0 {
			r.Sample(map[string]interface{}{"case": c, "observed": detail[:min(len(detail), 500)]})
		}
		for _, k := range keys {
			r.Violation(k, detail[:min(len(detail), 1500)], c)
		}
	})
}

func init() {
	register("C15", &check{run: c15Run, replay: c15Replay, quick: 300 * time.Second, thor: 1500 * time.Second})
}
