package main

import (
	"encoding/json"
	"fmt"
	"strings"
	"time"

	saml2 "github.com/russellhaering/gosaml2"

	"verif/idp"
	"verif/mc"
	"verif/world"
)

// C05 — expiry and validity-window decisions are exact for every clock position.
//
// Instants live on a half-second grid of five points around T0. Every assignment of
// NotBefore, Conditions NotOnOrAfter and each assertion's subject-confirmation NotOnOrAfter
// to grid points is signed once and evaluated at every clock position of the grid: every
// relative ordering, including every equality. On top: renderings of the same instants
// (deviation-bounded) and a menu of missing / malformed bounds.

const c05Grid = 5

// c05Instant maps a grid index to an instant: 0..4 are half a second apart around T0; the
// far indices stand for the "unbounded" renderings deployments use (the integer comparison of
// indices stays the oracle).
func c05Instant(g int) time.Time {
	switch g {
	case c05FarPast:
		return time.Date(1, 1, 1, 0, 0, 0, 0, time.UTC)
	case c05Past1600:
		return time.Date(1600, 2, 29, 12, 0, 0, 0, time.UTC)
	case c05Far2300:
		return time.Date(2300, 1, 1, 0, 0, 0, 0, time.UTC)
	case c05FarFuture:
		return time.Date(9999, 12, 31, 23, 59, 59, 0, time.UTC)
	}
	return world.T0.Add(time.Duration(g-2) * 500 * time.Millisecond)
}

const (
	c05FarPast   = -20
	c05Past1600  = -10
	c05Far2300   = 10
	c05FarFuture = 20
)

// c05Render writes instant t in rendering r (all denote the same instant).
func c05Render(t time.Time, r int) string {
	frac := t.Nanosecond() != 0
	switch r {
	case 0:
		if frac {
			return t.UTC().Format("2006-01-02T15:04:05.9Z")
		}
		return t.UTC().Format("2006-01-02T15:04:05Z")
	case 1:
		s := t.UTC().Format("2006-01-02T15:04:05.999999999")
		return s + "+00:00"
	case 2:
		return t.In(time.FixedZone("", 5*3600+1800)).Format("2006-01-02T15:04:05.999999999-07:00")
	case 3:
		return t.In(time.FixedZone("", -8*3600)).Format("2006-01-02T15:04:05.999999999-07:00")
	case 4:
		return t.UTC().Format("2006-01-02T15:04:05.000Z")
	case 5:
		return t.UTC().Format("2006-01-02T15:04:05.000000000Z")
	case 6:
		return t.In(time.FixedZone("", 5*3600+1800)).Format("2006-01-02T15:04:05.000-07:00")
	case 7:
		// a long fraction (12 digits) and an offset: 38 characters
		x := t.In(time.FixedZone("", 5*3600+1800))
		return x.Format("2006-01-02T15:04:05") + fmt.Sprintf(".%09d000", x.Nanosecond()) + x.Format("-07:00")
	case 8:
		// a 16-digit fraction and Z
		return t.UTC().Format("2006-01-02T15:04:05") + fmt.Sprintf(".%09d0000000Z", t.Nanosecond())
	}
	panic("rendering")
}

const c05Renderings = 9

var c05Malformed = []string{"absent", "empty", "garbage", "date-only", "no-zone", "slash-date", "space-separator", "trailing-junk", "long-fraction-then-junk",
	// the fixed-width shape with a field out of range: not an instant
	"day-30-of-february", "hour-24", "month-13", "minute-60", "day-00", "second-61"}

func c05MalformedValue(kind string, t time.Time) string {
	switch kind {
	case "absent":
		return idp.Absent
	case "empty":
		return ""
	case "garbage":
		return "garbage"
	case "date-only":
		return t.UTC().Format("2006-01-02")
	case "no-zone":
		return t.UTC().Format("2006-01-02T15:04:05")
	case "slash-date":
		return t.UTC().Format("2006/01/02T15:04:05Z")
	case "space-separator":
		return t.UTC().Format("2006-01-02 15:04:05Z")
	case "day-30-of-february":
		return fmt.Sprintf("%04d-02-30T00:00:00Z", t.UTC().Year())
	case "hour-24":
		return t.UTC().Format("2006-01-02") + "T24:00:00Z"
	case "month-13":
		return fmt.Sprintf("%04d-13-01T00:00:00Z", t.UTC().Year())
	case "minute-60":
		return t.UTC().Format("2006-01-02T15") + ":60:00Z"
	case "day-00":
		return t.UTC().Format("2006-01") + "-00T00:00:00Z"
	case "second-61":
		return t.UTC().Format("2006-01-02T15:04") + ":61Z"
	case "trailing-junk":
		return t.UTC().Format("2006-01-02T15:04:05Z") + "junk"
	case "long-fraction-then-junk":
		// the first 35 characters are a complete timestamp
		return t.In(time.FixedZone("", 2*3600)).Format("2006-01-02T15:04:05.000000000-07:00") + "junk"
	}
	panic(kind)
}

type c05Case struct {
	N     int    `json:"n"`
	G     []int  `json:"grid"`      // NotBefore, NotOnOrAfter, S1[, S2] as grid indices
	R     []int  `json:"rendering"` // rendering of each of those instants
	Mal   string `json:"malformed,omitempty"`
	MalAt int    `json:"malformed_at,omitempty"` // index into G; -1 with Mal=="no-conditions"
	Clock int    `json:"clock"`                  // grid index of the SP clock
	Skip  bool   `json:"skip_sig,omitempty"`
}

func c05Spec(c c05Case) idp.ResponseSpec {
	r := idp.DefaultResponse(c.N)
	vals := make([]string, len(c.G))
	for i, g := range c.G {
		vals[i] = c05Render(c05Instant(g), c.R[i])
	}
	if c.Mal != "" && c.Mal != "no-conditions" {
		vals[c.MalAt] = c05MalformedValue(c.Mal, c05Instant(c.G[c.MalAt]))
	}
	far := idp.TS(world.T0.Add(time.Hour))
	for i := range r.Assertions {
		a := &r.Assertions[i]
		a.NotBefore, a.NotOnOrAfter = idp.TS(world.T0.Add(-time.Hour)), far
		a.SCDNotOnOrAfter = vals[2+i]
	}
	r.Assertions[0].NotBefore, r.Assertions[0].NotOnOrAfter = vals[0], vals[1]
	if c.Mal == "no-conditions" {
		r.Assertions[0].NoConditions = true
	}
	if !c.Skip {
		r.Sign = idp.SignSpec{Key: "K3"}
	}
	return r
}

func c05Exec(c c05Case) (keys []string, detail, class string) {
	enc := idp.RenderResponse(c05Spec(c))
	return c05Judge(c, enc)
}

func c05Judge(c c05Case, enc string) (keys []string, detail, class string) {
	now := c05Instant(c.Clock)
	conf := world.SPConf{Store: []string{"K3"}, ClockNs: int64(now.Sub(world.T0)), SkipSig: c.Skip}
	sp := conf.Build()
	info, r := retrieveInfo(sp, enc)
	var invalidTime bool
	if r.Accepted() && info.WarningInfo != nil {
		invalidTime = info.WarningInfo.InvalidTime
	}
	detail = fmt.Sprintf("case=%+v clock=%s | accepted=%v invalidTime=%v err=%s/%s/%s %q panic=%q", c, c05Render(now, 0), r.Accepted(), invalidTime, r.Err.Type, r.Err.Key, r.Err.Reason, r.Err.Text, r.Panic)
	if r.Panic != "" {
		return []string{"C05/panic"}, detail, "panic"
	}
	if c.Mal != "" {
		what := []string{"NotBefore", "Conditions.NotOnOrAfter", "SubjectConfirmationData.NotOnOrAfter[first]", "SubjectConfirmationData.NotOnOrAfter[second]"}
		w := "Conditions"
		if c.MalAt >= 0 {
			w = what[c.MalAt]
		}
		if r.Accepted() {
			return []string{fmt.Sprintf("C05/missing-or-malformed-bound-accepted/%s/%s", w, c.Mal)}, detail, "malformed/ACCEPTED"
		}
		return nil, detail, "malformed/rejected"
	}
	// integer comparison on the grid
	expired := false
	rel := ""
	for i := 0; i < c.N; i++ {
		s := c.G[2+i]
		if c.Clock >= s {
			expired = true
			if c.Clock > s {
				rel = "now>NotOnOrAfter"
			} else if rel == "" {
				rel = "now==NotOnOrAfter"
			}
		}
	}
	rendered := ""
	if expired {
		if r.Accepted() {
			return []string{"C05/hard-expiry/accepted-although/" + rel}, detail, "expired/ACCEPTED"
		}
		if r.Err.Type != "ErrInvalidValue" || r.Err.Key != "NotOnOrAfter" || r.Err.Reason != saml2.ReasonExpired {
			return []string{"C05/hard-expiry/rejected-with-other-error"}, detail, "expired/other-error"
		}
		return nil, detail, "expired/rejected"
	}
	if !r.Accepted() {
		return []string{"C05/hard-expiry/rejected-before-expiry" + rendered}, detail, "valid/REJECTED"
	}
	wantWarn := c.Clock < c.G[0] || c.Clock >= c.G[1]
	switch {
	case wantWarn && !invalidTime:
		k := "now<NotBefore"
		if c.Clock >= c.G[1] {
			k = "now>NotOnOrAfter"
			if c.Clock == c.G[1] {
				k = "now==NotOnOrAfter"
			}
		}
		return []string{"C05/window/no-warning-although/" + k + rendered}, detail, "outside-window/NO-WARNING"
	case !wantWarn && invalidTime:
		k := "inside"
		if c.Clock == c.G[0] {
			k = "now==NotBefore"
		}
		return []string{"C05/window/warning-although/" + k + rendered}, detail, "inside-window/WARNING"
	}
	// the exported VerifyAssertionConditions on the same instance, with the clock moved to every
	// other grid position after the validation above: the window is judged at the clock of that
	// call, not at the instant of an earlier one
	if len(info.Assertions) > 0 {
		for c2 := 0; c2 < c05Grid; c2++ {
			if c2 == c.Clock {
				continue
			}
			sp.Clock = world.Clock(c05Instant(c2))
			var w *saml2.WarningInfo
			var verr error
			a := info.Assertions[0]
			if p := guard(func() { w, verr = sp.VerifyAssertionConditions(&a) }); p != "" || verr != nil || w == nil {
				return []string{"C05/VerifyAssertionConditions/error-or-panic"}, detail + fmt.Sprintf(" | direct call at clock %d: err=%v panic=%q", c2, verr, p), "direct/ERROR"
			}
			if want2 := c2 < c.G[0] || c2 >= c.G[1]; w.InvalidTime != want2 {
				return []string{"C05/VerifyAssertionConditions/window-not-judged-at-the-clock-of-the-call"}, detail + fmt.Sprintf(" | direct call after the clock moved to grid %d: InvalidTime=%v want %v", c2, w.InvalidTime, want2), "direct/WRONG"
			}
		}
	}
	if wantWarn {
		return nil, detail, "outside-window/warning"
	}
	return nil, detail, "inside-window/no-warning"
}

var c05Memo = map[string][]c05Case{}

func c05Replay(raw json.RawMessage) ([]string, string) {
	get := func(t string) []c05Case {
		if d, ok := c05Memo[t]; ok {
			return d
		}
		d, _ := c05Docs(c05Bounds(t == "thorough"), nil)
		c05Memo[t] = d
		return d
	}
	if keys, detail, ok := liveReplay(raw, "C05", func(t string) int { return len(get(t)) * c05Grid }, func(t string, j int) string {
		c := get(t)[j/c05Grid]
		c.Clock = j % c05Grid
		k, _, class := c05Exec(c)
		return sig(k, class)
	}); ok {
		return keys, detail
	}
	var c c05Case
	if err := json.Unmarshal(raw, &c); err != nil {
		return nil, err.Error()
	}
	k, d, _ := c05Exec(c)
	return k, d
}

func c05Docs(renderBound map[int]int, stop func() bool) (docs []c05Case, complete bool) {
	complete = true
	for n := 1; n <= 2; n++ {
		k := 2 + n
		_, ok := mc.Enumerate(renderBound[n], stop, func(ch *mc.Chooser) {
			R := make([]int, k)
			for i := range R {
				R[i] = ch.Choose(fmt.Sprintf("render%d", i), c05Renderings)
			}
			// full grid for this rendering vector
			total := 1
			for i := 0; i < k; i++ {
				total *= c05Grid
			}
			for x := 0; x < total; x++ {
				G := make([]int, k)
				y := x
				for i := range G {
					G[i] = y % c05Grid
					y /= c05Grid
				}
				docs = append(docs, c05Case{N: n, G: G, R: append([]int(nil), R...)})
			}
		})
		if !ok {
			complete = false
		}
		// malformed menu: every bound x every kind, other instants at grid 4 (future) / 0 (past NotBefore)
		for at := 0; at < k; at++ {
			for _, m := range c05Malformed {
				G := make([]int, k)
				for i := range G {
					G[i] = 4
				}
				G[0] = 0
				docs = append(docs, c05Case{N: n, G: G, R: make([]int, k), Mal: m, MalAt: at})
				if at != 0 {
					// the same with NotBefore still ahead: the clock positions before it must not
					// shield the other bounds from being looked at
					G2 := append([]int(nil), G...)
					G2[0] = 4
					docs = append(docs, c05Case{N: n, G: G2, R: make([]int, k), Mal: m, MalAt: at})
				}
			}
		}
		G := make([]int, k)
		for i := range G {
			G[i] = 4
		}
		G[0] = 0
		docs = append(docs, c05Case{N: n, G: G, R: make([]int, k), Mal: "no-conditions", MalAt: -1})
		// far bounds (years 1, 1600, 2300, 9999): every bound at each far value of its side, the
		// others near the clock, in the plain and in a numeric-offset rendering
		for at := 0; at < k; at++ {
			fars := []int{c05Far2300, c05FarFuture}
			if at == 0 {
				fars = []int{c05FarPast, c05Past1600, c05Far2300}
			}
			for _, f := range fars {
				// an offset that keeps the local year inside 0001..9999
				offset := 3 // -08:00
				if f < 0 {
					offset = 2 // +05:30
				}
				for _, rend := range []int{0, offset} {
					G := make([]int, k)
					for i := range G {
						G[i] = 3
					}
					G[0] = 1
					G[at] = f
					R := make([]int, k)
					R[at] = rend
					docs = append(docs, c05Case{N: n, G: G, R: R})
				}
			}
		}
		Gall := make([]int, k)
		for i := range Gall {
			Gall[i] = c05FarFuture
		}
		Gall[0] = c05FarPast
		docs = append(docs, c05Case{N: n, G: Gall, R: make([]int, k)})
	}
	// the plain grid once more with signature checking off (the time logic must not depend on it)
	nd := len(docs)
	for i := 0; i < nd; i++ {
		d := docs[i]
		plain := true
		for _, x := range d.R {
			if x != 0 {
				plain = false
			}
		}
		if plain && d.N == 1 {
			d.Skip = true
			docs = append(docs, d)
		}
	}
	return docs, complete
}

func c05Bounds(thorough bool) map[int]int {
	if thorough {
		return map[int]int{1: 3, 2: 2}
	}
	return map[int]int{1: 2, 2: 1}
}

func c05Run(r *mc.Run) {
	renderBound := map[int]int{1: 2, 2: 1}
	if r.Thorough() {
		renderBound = map[int]int{1: 3, 2: 2}
	}
	r.Rule = "every assignment of NotBefore / Conditions NotOnOrAfter / each SubjectConfirmationData NotOnOrAfter (n=1,2 assertions) to a 5-point half-second grid x every clock position on the grid (all orderings and equalities), x deviation-bounded renderings of each instant (7 renderings: Z, +00:00, +05:30, -08:00, .000, 9-digit fraction, offset+fraction), plus a menu of 7 malformed values / missing attribute / missing Conditions at every bound; non-trivial = signature verified and the time logic was reached; distinct = distinct (document, clock)"
	r.Set("rendering_deviation_bound_by_n", fmt.Sprint(renderBound))
	docs, complete := c05Docs(renderBound, r.Expired)
	if !complete {
		r.Cap("enumeration stopped by deadline")
	}
	r.State(len(docs))
	r.Set("documents", len(docs))
	fresh := make([]string, len(docs)*c05Grid)
	defer func() {
		stride := 4*c05Grid + 1 // co-prime with the grid: every clock position is visited
		if r.Thorough() {
			stride = 32*c05Grid + 1
		}
		livePass(r, len(fresh), stride, 90*time.Second, func(j int) string {
			c := docs[j/c05Grid]
			c.Clock = j % c05Grid
			keys, _, class := c05Exec(c)
			return sig(keys, class)
		}, fresh)
	}()
	r.Par(len(docs), func(i int) {
		d := docs[i]
		enc := idp.RenderResponse(c05Spec(d))
		for clk := 0; clk < c05Grid; clk++ {
			c := d
			c.Clock = clk
			keys, detail, class := c05Judge(c, enc)
			fresh[i*c05Grid+clk] = sig(keys, class)
			r.Eval(1)
			r.Transition(1)
			r.Bucket(class)
			if !strings.Contains(detail, "err=*errors") {
				r.Nontrivial(fmt.Sprintf("%v/%v/%s/%d/%d/%v", c.G, c.R, c.Mal, c.MalAt, clk, c.Skip))
			}
			if (i*5+clk)%4999 == 0 {
				r.Sample(map[string]interface{}{"case": c, "observed": detail})
			}
			for _, k := range keys {
				r.Violation(k, detail, c)
			}
		}
	})
}

func init() {
	register("C05", &check{run: c05Run, replay: c05Replay, quick: 240 * time.Second, thor: 900 * time.Second})
}
