package main

import (
	"fmt"
	"strings"

	"github.com/beevik/etree"

	"verif/idp"
	"verif/mc"
	"verif/oracle"
)

// E1 — structure-exhaustive enumeration: every ordered tree with at most N nodes whose root
// is an attacker-made or genuine Response and whose other nodes are drawn from the wrapping
// alphabet. Every wrapping / duplication / relocation / sibling-injection / ID-collision
// structure up to that size is in this set (the classic XSW1-8 shapes are trees of <= 5
// nodes over it).

var treeLabels = []string{"G", "G2", "E", "E=", "W:Extensions", "W:Advice", "W:Object", "W:Foreign", "S", "X(G)", "X(E)", "X(R)"}
var treeRoots = []string{"attacker", "attacker-id=G", "attacker-id=signed-response", "genuine-signed-response"}

func isLeafOnly(l string) bool { return strings.HasPrefix(l, "X(") }

type treeParts struct {
	g, g2    []byte // standalone bytes of two genuine individually signed assertions
	gID      string
	signedR  []byte // a genuine signed Response (g1)
	signedID string
}

func theTreeParts() treeParts {
	w := theAttWorld()
	var p treeParts
	p.g, p.g2 = w.pool.spliceSrc[0], w.pool.spliceSrc[3] // g2's alice, g5's second (bob)
	p.gID = attachStandalone(p.g).SelectAttrValue("ID", "")
	for _, m := range w.msgs {
		if m.Name == "g1" {
			p.signedR = m.XML
			p.signedID = parseDoc(m.XML).Root().SelectAttrValue("ID", "")
		}
	}
	return p
}

// container returns the element under which children of a node hang.
func treeNode(label string, p treeParts) (el *etree.Element, hang *etree.Element) {
	switch {
	case label == "G" || label == "G2":
		src := p.g
		if label == "G2" {
			src = p.g2
		}
		el = attachStandalone(src)
		sg := ownSig(el)
		return el, sg // children go inside the signature (wrapped in ds:Object by the caller)
	case label == "E":
		el = evilAssertion("_evil-1")
		return el, el
	case label == "E=":
		el = evilAssertion(p.gID)
		return el, el
	case strings.HasPrefix(label, "W:"):
		el = wrapper(strings.TrimPrefix(label, "W:"))
		return el, el
	case label == "S":
		g := attachStandalone(p.g)
		sg := ownSig(g)
		g.RemoveChild(sg)
		if sg.SelectAttr("xmlns:ds") == nil {
			sg.CreateAttr("xmlns:ds", idp.NSDS)
		}
		return sg, sg
	case label == "X(G)":
		g := attachStandalone(p.g)
		return idp.EncryptPlaintext(idp.StandaloneBytes(g), idp.EncSpec{}), nil
	case label == "X(R)":
		// a whole genuine signed Response as the plaintext of an EncryptedAssertion
		return idp.EncryptPlaintext(p.signedR, idp.EncSpec{}), nil
	case label == "X(E)":
		e := evilAssertion("_evil-2")
		return idp.EncryptPlaintext(idp.StandaloneBytes(e), idp.EncSpec{}), nil
	}
	panic(label)
}

// buildTree renders the tree given by preorder depths and labels (index 0 is the root).
func buildTree(rootKind int, depths []int, labels []int, p treeParts) []byte {
	var doc *etree.Document
	var rootEl *etree.Element
	switch treeRoots[rootKind] {
	case "genuine-signed-response":
		doc = parseDoc(p.signedR)
		rootEl = doc.Root()
	default:
		spec := idp.DefaultResponse(0)
		switch treeRoots[rootKind] {
		case "attacker":
			spec.ID = "_evil-resp"
		case "attacker-id=G":
			spec.ID = p.gID
		case "attacker-id=signed-response":
			spec.ID = p.signedID
		}
		doc = idp.BuildResponse(spec)
		rootEl = doc.Root()
	}
	type frame struct {
		hang   *etree.Element
		signed bool // children must be wrapped in ds:Object (hang is a ds:Signature)
	}
	stack := []frame{{rootEl, false}}
	for i := 1; i < len(depths); i++ {
		d := depths[i]
		stack = stack[:d]
		parent := stack[d-1]
		el, hang := treeNode(treeLabels[labels[i]], p)
		if parent.signed {
			obj := wrapper("Object")
			obj.AddChild(el)
			parent.hang.AddChild(obj)
		} else {
			parent.hang.AddChild(el)
		}
		l := treeLabels[labels[i]]
		stack = append(stack, frame{hang, l == "G" || l == "G2" || l == "S"})
	}
	return serDoc(doc)
}

func treeDesc(rootKind int, depths, labels []int) string {
	var sb strings.Builder
	sb.WriteString("tree root=" + treeRoots[rootKind] + " :")
	for i := 1; i < len(depths); i++ {
		sb.WriteString(fmt.Sprintf(" %s%s", strings.Repeat(">", depths[i]), treeLabels[labels[i]]))
	}
	return sb.String()
}

type treeShape struct {
	root   int
	depths []int
	labels []int
}

// enumTrees lists every tree with exactly n nodes (root included): every preorder depth
// sequence (each ordered tree once) x every labelling that respects leaf-only labels.
func enumTrees(n int) []treeShape {
	var out []treeShape
	depths := make([]int, n)
	labels := make([]int, n)
	var rec func(i int)
	rec = func(i int) {
		if i == n {
			for rk := range treeRoots {
				out = append(out, treeShape{rk, append([]int(nil), depths...), append([]int(nil), labels...)})
			}
			return
		}
		for d := 1; d <= depths[i-1]+1; d++ {
			if d == depths[i-1]+1 && i-1 > 0 && isLeafOnly(treeLabels[labels[i-1]]) {
				continue // the previous node cannot have children
			}
			depths[i] = d
			for l := range treeLabels {
				labels[i] = l
				rec(i + 1)
			}
		}
	}
	rec(1)
	return out
}

func treeExplore(r *mc.Run, prop string) {
	maxN := 4
	if r.Thorough() {
		maxN = 5
	}
	p := theTreeParts()
	var shapes []treeShape
	for n := 2; n <= maxN; n++ {
		shapes = append(shapes, enumTrees(n)...)
	}
	if prop == "C07" {
		// only trees that contain an encrypted node matter to C07
		var keep []treeShape
		for _, t := range shapes {
			for i := 1; i < len(t.labels); i++ {
				if isLeafOnly(treeLabels[t.labels[i]]) {
					keep = append(keep, t)
					break
				}
			}
		}
		shapes = keep
	}
	r.Set("tree_max_nodes", maxN)
	r.Set("trees", len(shapes))
	ncfg := len(attCfgList(prop, false))
	r.Par(len(shapes), func(i int) {
		t := shapes[i]
		xml := buildTree(t.root, t.depths, t.labels, p)
		enc := idp.Encode(xml, i%5 == 0)
		sp := attCfgs[0].Conf.Build()
		for _, ci := range attCfgList(prop, i%11 == 0) {
			keys, detail, class := attJudge(enc, xml, ci, sp)
			r.Eval(1)
			r.Bucket("tree/" + class)
			if class != "rejected" {
				r.Nontrivial(enc + attCfgs[ci].Name)
			}
			for _, k := range filterKeys(keys, prop) {
				r.Violation(k, treeDesc(t.root, t.depths, t.labels)+"\n  "+detail, attCase{Input: enc, Cfg: ci, Path: treeDesc(t.root, t.depths, t.labels)})
			}
		}
		if i%9973 == 0 {
			r.Sample(map[string]interface{}{"tree": treeDesc(t.root, t.depths, t.labels), "bytes": len(xml)})
		}
		r.State(1)
		r.Transition(ncfg)
	})
}

var _ = oracle.NSA
