//go:build sched

package main

import (
	"context"
	"crypto"
	"crypto/x509"
	"encoding/base64"
	"encoding/json"
	"encoding/xml"
	"fmt"
	"os"
	"os/exec"
	"path/filepath"
	"reflect"
	"sort"
	"strings"
	"sync"
	"time"

	"github.com/beevik/etree"
	saml2 "github.com/russellhaering/gosaml2"
	"github.com/russellhaering/gosaml2/types"
	"github.com/russellhaering/gosaml2/vsched"
	dsig "github.com/russellhaering/goxmldsig"

	"verif/idp"
	"verif/mc"
	"verif/oracle"
	"verif/recipient"
	"verif/world"
)

// C17 — a configured service provider is goroutine-safe; calls are isolated and pure.
//
// (a) every interleaving (preemption-bounded) of 2-3 managed goroutines on one shared SP,
//     under the controlled scheduler, on the overlay build of the library;
// (b) every call history up to a depth on one SP: configuration snapshot unchanged, outcome
//     equal to the outcome on a fresh instance;
// (c) a free-running -race pass of the same scenario bodies (supporting; sampling).

const c17AlgConfigured = dsig.ECDSASHA512SignatureMethod

// c17Flavor selects the provider the scenarios run on: 0 = a non-default algorithm and
// canonicaliser are configured; 1 = neither is configured (library defaults apply, and anything
// one operation writes into the shared signing context shows in the next message). It is set
// per scenario; executions are sequential.
var c17Flavor int

// what a message signed by the provider of each flavour declares, and how its signing context
// reads: flavour 0 from the configuration, flavour 1 taken from calls made alone at start
var c17WantAlg = [2]string{c17AlgConfigured, ""}
var c17WantCanon = [2]string{idp.C14NExc, ""}
var c17WantCtx = [2]string{fmt.Sprintf("hash=%v method=%s canon=%s", crypto.SHA512, c17AlgConfigured, idp.C14NExc), ""}

func c17SP() *saml2.SAMLServiceProvider {
	sp := world.SP()
	sp.IDPCertificateStore = world.Store("K1", "K3")
	sp.SignAuthnRequests = true
	// no SP issuer: the builders fall back to the IdP issuer (the path with logic in it); a
	// builder that "remembers" the fallback in the configuration shows in the snapshot
	sp.ServiceProviderIssuer = ""
	// a P-256 signer through the setter (fast), a non-default algorithm and canonicaliser so
	// that a half-initialised signing context (sha256 / c14n11 defaults) is observable
	sp.SetSPSigningKeyStore(world.SetterKeyStore("KE"))
	if c17Flavor == 0 {
		sp.SignAuthnRequestsAlgorithm = c17AlgConfigured
		sp.SignAuthnRequestsCanonicalizer = dsig.MakeC14N10ExclusiveCanonicalizerWithPrefixList("")
	}
	// a context list with a blank entry in the middle and a repeated one: anything that
	// "tidies" the configured slice in place while building shows in the configuration snapshot
	sp.RequestedAuthnContext = &saml2.RequestedAuthnContext{Comparison: saml2.AuthnPolicyMatchExact, Contexts: []string{saml2.AuthnContextPasswordProtectedTransport, " ", "urn:example:third", "urn:example:third"}}
	return sp
}

var c17Ops = []string{"SigningContext", "BuildAuthRequest", "BuildLogoutRequestDocument", "BuildLogoutResponseDocument", "BuildAuthURLRedirect", "ValidateEncodedResponse(A)", "ValidateEncodedResponse(B)", "RetrieveAssertionInfo(A)", "Metadata", "ValidateLogoutRequest", "GetSigningCertBytes", "BuildAuthBodyPost(relay-one)", "BuildAuthBodyPost(relay-two)", "BuildAuthURL(relay-one)", "BuildLogoutBodyPost", "BuildLogoutResponseBodyPost", "BuildLogoutURLRedirect", "ValidateLogoutResponse", "DecodeUnverifiedBaseResponse", "ValidateEncodedResponse(E)", "ValidateEncodedResponse(X)", "ValidateEncodedResponse(D)", "ValidateEncodedResponse(D2)",
	// F is an unsigned Response whose assertion is signed by a key that only ANOTHER provider in the
	// process trusts (another tenant / another IdP): refused here, honoured there
	"ValidateEncodedResponse(F)", "tenant2:ValidateEncodedResponse(F)", "tenant2:ValidateEncodedResponse(A)",
	// a key store without a signer is refused by the setters; the provider stays usable
	"SetSPSigningKeyStore(no signer)", "SetSPKeyStore(no signer)"}

// c17Tenant2 is the second provider of the execution in progress (executions are sequential): the
// same configuration as the first but for its certificate store, which trusts only KA.
var c17Tenant2 *saml2.SAMLServiceProvider

func c17NewTenant2() *saml2.SAMLServiceProvider {
	sp := c17SP()
	sp.IDPCertificateStore = world.Store("KA")
	return sp
}

var (
	c17Once                        sync.Once
	c17MsgA, c17MsgB, c17MsgLogout string
	c17MsgE                        string // a Response-signed message whose assertion is encrypted (RSA-OAEP, AES-GCM)
	c17TupA, c17TupB               string
	// a Response-signed message whose bearer confirmation expired a minute before the SP clock
	// (its Conditions are still valid): rejected, whatever else is being validated meanwhile
	c17MsgX, c17ErrX string
	// two different DEFLATE-compressed messages (one Response-signed, one with two signed assertions)
	c17MsgD, c17MsgD2, c17TupD, c17TupD2 string
	c17MsgF, c17ErrF, c17TupF2, c17ErrA2 string
)

func c17Init() {
	c17Once.Do(func() {
		a := idp.DefaultResponse(1)
		uniq(&a, "c17a")
		a.Sign = idp.SignSpec{Key: "K3"}
		c17MsgA = idp.RenderResponse(a)
		b := idp.DefaultResponse(2)
		uniq(&b, "c17b")
		for i := range b.Assertions {
			b.Assertions[i].Sign = idp.SignSpec{Key: "K3"}
		}
		c17MsgB = idp.RenderResponse(b)
		l := idp.DefaultLogout("LogoutRequest")
		l.Sign = idp.SignSpec{Key: "K3"}
		c17MsgLogout = idp.RenderLogout(l)
		e := idp.DefaultResponse(1)
		uniq(&e, "c17e")
		e.Sign = idp.SignSpec{Key: "K3"}
		e.Assertions[0].Encrypt = &idp.EncSpec{}
		c17MsgE = idp.RenderResponse(e)
		x := idp.DefaultResponse(1)
		uniq(&x, "c17x")
		x.Sign = idp.SignSpec{Key: "K3"}
		x.Assertions[0].SCDNotOnOrAfter = idp.TS(world.T0.Add(-time.Minute))
		c17MsgX = idp.RenderResponse(x)
		_, rx := validateResponse(c17SP(), c17MsgX)
		c17ErrX = rx.Err.Text
		d1 := idp.DefaultResponse(1)
		uniq(&d1, "c17d")
		d1.Sign = idp.SignSpec{Key: "K3"}
		d1.Layout.Deflate = true
		c17MsgD = idp.RenderResponse(d1)
		d2 := idp.DefaultResponse(2)
		uniq(&d2, "c17dd")
		for i := range d2.Assertions {
			d2.Assertions[i].Sign = idp.SignSpec{Key: "K3"}
		}
		d2.Layout.Deflate = true
		c17MsgD2 = idp.RenderResponse(d2)
		rd, _ := validateResponse(c17SP(), c17MsgD)
		rd2, _ := validateResponse(c17SP(), c17MsgD2)
		c17TupD, c17TupD2 = oracle.FromResponse(rd).Key()+"true", oracle.FromResponse(rd2).Key()+"false"
		f := idp.DefaultResponse(1)
		uniq(&f, "c17f")
		f.Assertions[0].Sign = idp.SignSpec{Key: "KA"}
		f.Assertions[0].NameID = evilName
		c17MsgF = idp.RenderResponse(f)
		_, rf := validateResponse(c17SP(), c17MsgF)
		c17ErrF = rf.Err.Text
		rf2, _ := validateResponse(c17NewTenant2(), c17MsgF)
		c17TupF2 = oracle.FromResponse(rf2).Key() + "false"
		_, ra2 := validateResponse(c17NewTenant2(), c17MsgA)
		c17ErrA2 = ra2.Err.Text
		// the defaults flavour: what one call made alone declares
		c17Flavor = 1
		alone := c17SP()
		c17WantCtx[1] = c17Do(alone, opIdx("SigningContext")).Text
		if x, err := c17SP().BuildAuthRequest(); err == nil {
			d := etree.NewDocument()
			if d.ReadFromString(x) == nil {
				if a := d.Root().FindElement("./Signature/SignedInfo/SignatureMethod"); a != nil {
					c17WantAlg[1] = a.SelectAttrValue("Algorithm", "")
				}
				if a := d.Root().FindElement("./Signature/SignedInfo/CanonicalizationMethod"); a != nil {
					c17WantCanon[1] = a.SelectAttrValue("Algorithm", "")
				}
			}
		}
		c17Flavor = 0
		ra, _ := validateResponse(c17SP(), c17MsgA)
		rb, _ := validateResponse(c17SP(), c17MsgB)
		c17TupA, c17TupB = oracle.FromResponse(ra).Key(), oracle.FromResponse(rb).Key()
	})
}

// c17Obs is what one call observed; it is judged after the execution, outside the scheduler.
type c17Obs struct {
	Op    int
	Err   string
	Text  string // serialised output, tuple, or observation at return time
	Bytes []byte // the slice the call returned, NOT copied: judged after every thread finished
	Panic string
}

// c17Do performs one operation on the shared instance.
func c17Do(sp *saml2.SAMLServiceProvider, op int) (o c17Obs) {
	o.Op = op
	defer func() {
		if r := recover(); r != nil {
			o.Panic = fmt.Sprint(r)
		}
	}()
	if strings.HasPrefix(c17Ops[op], "tenant2:") {
		sp = c17Tenant2
	}
	switch c17Ops[op] {
	case "SetSPSigningKeyStore(no signer)", "SetSPKeyStore(no signer)":
		var err error
		if strings.HasPrefix(c17Ops[op], "SetSPSigning") {
			err = sp.SetSPSigningKeyStore(&saml2.KeyStore{Cert: world.Cert("KE").Raw})
		} else {
			err = sp.SetSPKeyStore(&saml2.KeyStore{Cert: world.Cert("KS").Raw})
		}
		o.Text = fmt.Sprint("refused=", err != nil)
	case "ValidateEncodedResponse(F)", "tenant2:ValidateEncodedResponse(F)", "tenant2:ValidateEncodedResponse(A)":
		m := c17MsgF
		if strings.HasSuffix(c17Ops[op], "(A)") {
			m = c17MsgA
		}
		r, err := sp.ValidateEncodedResponse(m)
		if err != nil {
			o.Err = err.Error()
		} else {
			o.Text = oracle.FromResponse(r).Key() + fmt.Sprint(r.SignatureValidated)
		}
	case "SigningContext":
		ctx := sp.SigningContext()
		// observed at return time: must already be fully configured
		o.Text = fmt.Sprintf("hash=%v method=%s canon=%s", ctx.Hash, ctx.GetSignatureMethodIdentifier(), ctx.Canonicalizer.Algorithm())
	case "BuildAuthRequest":
		s, err := sp.BuildAuthRequest()
		o.Text = s
		if err != nil {
			o.Err = err.Error()
		}
	case "BuildLogoutRequestDocument":
		d, err := sp.BuildLogoutRequestDocument("alice@example.com", "_s1")
		if err != nil {
			o.Err = err.Error()
		} else {
			o.Text, _ = d.WriteToString()
		}
	case "BuildLogoutResponseDocument":
		d, err := sp.BuildLogoutResponseDocument(saml2.StatusCodeSuccess, "_r1")
		if err != nil {
			o.Err = err.Error()
		} else {
			o.Text, _ = d.WriteToString()
		}
	case "BuildAuthURLRedirect":
		d, err := sp.BuildAuthRequestDocumentNoSig()
		if err == nil {
			o.Text, err = sp.BuildAuthURLRedirect("relay", d)
		}
		if err != nil {
			o.Err = err.Error()
		}
	case "ValidateEncodedResponse(A)", "ValidateEncodedResponse(B)", "ValidateEncodedResponse(E)", "ValidateEncodedResponse(X)", "ValidateEncodedResponse(D)", "ValidateEncodedResponse(D2)":
		m := c17MsgA
		if strings.HasSuffix(c17Ops[op], "(D)") {
			m = c17MsgD
		}
		if strings.HasSuffix(c17Ops[op], "(D2)") {
			m = c17MsgD2
		}
		if strings.HasSuffix(c17Ops[op], "(X)") {
			m = c17MsgX
		}
		if strings.HasSuffix(c17Ops[op], "(B)") {
			m = c17MsgB
		}
		if strings.HasSuffix(c17Ops[op], "(E)") {
			m = c17MsgE
		}
		r, err := sp.ValidateEncodedResponse(m)
		if err != nil {
			o.Err = err.Error()
		} else {
			o.Text = oracle.FromResponse(r).Key() + fmt.Sprint(r.SignatureValidated)
		}
	case "RetrieveAssertionInfo(A)":
		i, err := sp.RetrieveAssertionInfo(c17MsgA)
		if err != nil {
			o.Err = err.Error()
		} else {
			o.Text = i.NameID + "|" + i.SessionIndex + "|" + fmt.Sprint(i.ResponseSignatureValidated, len(i.Assertions), i.Values.Get("uid"))
		}
	case "Metadata":
		m, err := sp.Metadata()
		if err != nil {
			o.Err = err.Error()
		} else {
			b, _ := xml.Marshal(m)
			o.Text = string(b)
		}
	case "ValidateLogoutRequest":
		r, err := sp.ValidateEncodedLogoutRequestPOST(c17MsgLogout)
		if err != nil {
			o.Err = err.Error()
		} else {
			o.Text = fmt.Sprint(r.ID, r.SignatureValidated, r.NameID.Value)
		}
	case "BuildAuthBodyPost(relay-one)", "BuildAuthBodyPost(relay-two)":
		relay := "relay-one"
		if strings.Contains(c17Ops[op], "two") {
			relay = "relay-two"
		}
		b, err := sp.BuildAuthBodyPost(relay)
		if err != nil {
			o.Err = err.Error()
		}
		o.Bytes = b
	case "BuildAuthURL(relay-one)":
		u, err := sp.BuildAuthURL("relay-one")
		if err != nil {
			o.Err = err.Error()
		}
		o.Text = u
	case "BuildLogoutBodyPost":
		d, err := sp.BuildLogoutRequestDocument("alice@example.com", "_s1")
		if err == nil {
			o.Bytes, err = sp.BuildLogoutBodyPostFromDocument("logout-relay", d)
		}
		if err != nil {
			o.Err = err.Error()
		}
	case "BuildLogoutResponseBodyPost":
		d, err := sp.BuildLogoutResponseDocument(saml2.StatusCodeSuccess, "_r1")
		if err == nil {
			o.Bytes, err = sp.BuildLogoutResponseBodyPostFromDocument("response-relay", d)
		}
		if err != nil {
			o.Err = err.Error()
		}
	case "BuildLogoutURLRedirect":
		d, err := sp.BuildLogoutRequestDocumentNoSig("alice@example.com", "_s1")
		if err == nil {
			o.Text, err = sp.BuildLogoutURLRedirect("logout-url-relay", d)
		}
		if err != nil {
			o.Err = err.Error()
		}
	case "ValidateLogoutResponse":
		r, err := sp.ValidateEncodedLogoutResponsePOST(c17LogoutResponse())
		if err != nil {
			o.Err = err.Error()
		} else {
			o.Text = fmt.Sprint(r.ID, r.SignatureValidated, r.InResponseTo)
		}
	case "DecodeUnverifiedBaseResponse":
		r, err := saml2.DecodeUnverifiedBaseResponse(c17MsgB)
		if err != nil {
			o.Err = err.Error()
		} else {
			o.Text = fmt.Sprint(r.ID, r.InResponseTo, r.Destination, r.Issuer.Value)
		}
	case "GetSigningCertBytes":
		b, err := sp.GetSigningCertBytes()
		if err != nil {
			o.Err = err.Error()
		}
		o.Text = fmt.Sprintf("%x", b[:16])
	}
	return o
}

// c17Judge decides whether an observation equals what the call returns alone on a fresh SP.
func c17Judge(o c17Obs) string {
	if o.Panic != "" {
		return "panic: " + o.Panic
	}
	switch c17Ops[o.Op] {
	case "ValidateEncodedResponse(F)":
		if o.Err == "" || o.Err != c17ErrF {
			return fmt.Sprintf("a Response whose assertion only another provider's store vouches for gave error %q (accepted: %.200q), alone it is rejected with %q", o.Err, o.Text, c17ErrF)
		}
		return ""
	case "tenant2:ValidateEncodedResponse(A)":
		if o.Err == "" || o.Err != c17ErrA2 {
			return fmt.Sprintf("the second provider: error %q (accepted: %.200q), alone it rejects with %q", o.Err, o.Text, c17ErrA2)
		}
		return ""
	case "tenant2:ValidateEncodedResponse(F)":
		if o.Err != "" || o.Text != c17TupF2 {
			return fmt.Sprintf("the second provider: error %q result %.200q, alone it accepts", o.Err, o.Text)
		}
		return ""
	case "SetSPSigningKeyStore(no signer)", "SetSPKeyStore(no signer)":
		if o.Text != "refused=true" {
			return "a key store without a signer was not refused"
		}
		return ""
	}
	if c17Ops[o.Op] == "ValidateEncodedResponse(X)" {
		if o.Err == "" || o.Err != c17ErrX {
			return fmt.Sprintf("the expired response gave error %q (accepted: %q), alone it is rejected with %q", o.Err, o.Text, c17ErrX)
		}
		return ""
	}
	if o.Err != "" {
		return "error: " + o.Err
	}
	ref := c17SP()
	cert, _ := ref.GetSigningCertBytes()
	rc, _ := x509.ParseCertificate(cert)
	verifyDoc := func(s string, kind string) string {
		d := etree.NewDocument()
		if err := d.ReadFromString(s); err != nil {
			return "output not parseable: " + err.Error()
		}
		ctx := dsig.NewDefaultValidationContext(&dsig.MemoryX509CertificateStore{Roots: []*x509.Certificate{rc}})
		ctx.Clock = world.Clock(world.T0)
		if _, err := ctx.Validate(d.Root()); err != nil {
			return "signature does not verify: " + err.Error()
		}
		sig := d.Root().FindElement("./Signature")
		if a := sig.FindElement("./SignedInfo/SignatureMethod"); a.SelectAttrValue("Algorithm", "") != c17WantAlg[c17Flavor] {
			return "declared signature method " + a.SelectAttrValue("Algorithm", "") + " is not the configured one"
		}
		if a := sig.FindElement("./SignedInfo/CanonicalizationMethod"); a.SelectAttrValue("Algorithm", "") != c17WantCanon[c17Flavor] {
			return "declared canonicaliser " + a.SelectAttrValue("Algorithm", "") + " is not the configured one"
		}
		n, err := recipient.Parse([]byte(s))
		if err != nil || n.Local != kind {
			return "not a well-formed " + kind
		}
		return ""
	}
	switch c17Ops[o.Op] {
	case "SigningContext":
		if want := c17WantCtx[c17Flavor]; o.Text != want {
			return "signing context observed half-configured: " + o.Text
		}
	case "BuildAuthRequest":
		return verifyDoc(o.Text, "AuthnRequest")
	case "BuildLogoutRequestDocument":
		return verifyDoc(o.Text, "LogoutRequest")
	case "BuildLogoutResponseDocument":
		return verifyDoc(o.Text, "LogoutResponse")
	case "BuildAuthURLRedirect":
		_, params := recipient.SplitURL(o.Text)
		alg := ""
		for _, p := range params {
			if p.RawName == "SigAlg" {
				alg, _ = recipient.PctDecode(p.RawValue)
			}
		}
		if alg != c17WantAlg[c17Flavor] {
			return "redirect SigAlg " + alg + " is not the configured one"
		}
	case "BuildAuthBodyPost(relay-one)", "BuildAuthBodyPost(relay-two)":
		want := "relay-one"
		if strings.Contains(c17Ops[o.Op], "two") {
			want = "relay-two"
		}
		toks, err := recipient.TokenizeHTML(string(o.Bytes))
		if err != nil {
			return "returned page does not tokenize: " + err.Error()
		}
		relay, msg := "", ""
		for _, t := range toks {
			if t.Kind == "start" && t.Name == "input" {
				var name, value string
				for _, a := range t.Attrs {
					if a.Name == "name" {
						name = a.Value
					}
					if a.Name == "value" {
						value = a.Value
					}
				}
				switch name {
				case "RelayState":
					relay = value
				case "SAMLRequest":
					msg = value
				}
			}
		}
		if relay != want {
			return fmt.Sprintf("returned page carries RelayState %q, the caller passed %q", relay, want)
		}
		raw, err := base64Decode(msg)
		if err != nil {
			return "SAMLRequest field is not base64"
		}
		return verifyDoc(string(raw), "AuthnRequest")
	case "BuildLogoutBodyPost", "BuildLogoutResponseBodyPost":
		want, field, kind := "logout-relay", "SAMLRequest", "LogoutRequest"
		if c17Ops[o.Op] == "BuildLogoutResponseBodyPost" {
			want, field, kind = "response-relay", "SAMLResponse", "LogoutResponse"
		}
		toks, err := recipient.TokenizeHTML(string(o.Bytes))
		if err != nil {
			return "returned page does not tokenize: " + err.Error()
		}
		relay, msg := "", ""
		for _, t := range toks {
			if t.Kind == "start" && t.Name == "input" {
				var name, value string
				for _, a := range t.Attrs {
					if a.Name == "name" {
						name = a.Value
					}
					if a.Name == "value" {
						value = a.Value
					}
				}
				if name == "RelayState" {
					relay = value
				}
				if name == field {
					msg = value
				}
			}
		}
		if relay != want {
			return fmt.Sprintf("returned page carries RelayState %q, the caller passed %q", relay, want)
		}
		raw, err := base64Decode(msg)
		if err != nil {
			return field + " field is not base64"
		}
		return verifyDoc(string(raw), kind)
	case "BuildLogoutURLRedirect":
		_, params := recipient.SplitURL(o.Text)
		alg, relay := "", ""
		for _, p := range params {
			if p.RawName == "SigAlg" {
				alg, _ = recipient.PctDecode(p.RawValue)
			}
			if p.RawName == "RelayState" {
				relay = p.RawValue
			}
		}
		if alg != c17WantAlg[c17Flavor] || relay != "logout-url-relay" {
			return fmt.Sprintf("logout redirect carries SigAlg %q RelayState %q", alg, relay)
		}
	case "BuildAuthURL(relay-one)":
		_, params := recipient.SplitURL(o.Text)
		ok := false
		for _, p := range params {
			if p.RawName == "RelayState" && p.RawValue == "relay-one" {
				ok = true
			}
		}
		if !ok {
			return "returned URL does not carry the caller's RelayState"
		}
	case "ValidateEncodedResponse(A)":
		if o.Text != c17TupA+"true" {
			return "validation result differs from the sequential one"
		}
	case "ValidateEncodedResponse(B)":
		if o.Text != c17TupB+"false" {
			return "validation result differs from the sequential one"
		}
	case "ValidateEncodedResponse(D)":
		if o.Text != c17TupD {
			return "validation result differs from the sequential one"
		}
	case "ValidateEncodedResponse(D2)":
		if o.Text != c17TupD2 {
			return "validation result differs from the sequential one"
		}
	default:
		alone := c17Do(c17SP(), o.Op)
		if alone.Text != o.Text {
			return "result differs from the call made alone on a fresh instance"
		}
	}
	return ""
}

type c17Scenario struct {
	Name    string
	Threads [][]int // op indices per thread
}

// Defaults: a scenario whose name starts with "defaults:" runs on a provider with no algorithm
// and no canonicaliser configured.
func (sc c17Scenario) Defaults() bool { return strings.HasPrefix(sc.Name, "defaults:") }

func opIdx(name string) int {
	for i, n := range c17Ops {
		if n == name {
			return i
		}
	}
	panic(name)
}

func c17Scenarios(thorough bool) []c17Scenario {
	o := opIdx
	s := []c17Scenario{
		{"first-use race: SigningContext || SigningContext", [][]int{{o("SigningContext")}, {o("SigningContext")}}},
		{"BuildAuthRequest || BuildAuthRequest", [][]int{{o("BuildAuthRequest")}, {o("BuildAuthRequest")}}},
		{"BuildAuthRequest || BuildLogoutRequestDocument", [][]int{{o("BuildAuthRequest")}, {o("BuildLogoutRequestDocument")}}},
		{"SigningContext;BuildLogoutResponseDocument || BuildAuthURLRedirect", [][]int{{o("SigningContext"), o("BuildLogoutResponseDocument")}, {o("BuildAuthURLRedirect")}}},
		{"Validate(A) || Validate(B)", [][]int{{o("ValidateEncodedResponse(A)")}, {o("ValidateEncodedResponse(B)")}}},
		{"Validate(A);Metadata || BuildAuthRequest", [][]int{{o("ValidateEncodedResponse(A)"), o("Metadata")}, {o("BuildAuthRequest")}}},
		{"RetrieveAssertionInfo(A) || Validate(B);ValidateLogoutRequest", [][]int{{o("RetrieveAssertionInfo(A)")}, {o("ValidateEncodedResponse(B)"), o("ValidateLogoutRequest")}}},
		{"3 threads: SigningContext || BuildAuthRequest || Validate(A)", [][]int{{o("SigningContext")}, {o("BuildAuthRequest")}, {o("ValidateEncodedResponse(A)")}}},
		{"3 threads: GetSigningCertBytes;BuildLogoutRequestDocument || Metadata || RetrieveAssertionInfo(A)", [][]int{{o("GetSigningCertBytes"), o("BuildLogoutRequestDocument")}, {o("Metadata")}, {o("RetrieveAssertionInfo(A)")}}},
		{"BuildAuthBodyPost(relay-one) || BuildAuthBodyPost(relay-two);BuildAuthURL", [][]int{{o("BuildAuthBodyPost(relay-one)")}, {o("BuildAuthBodyPost(relay-two)"), o("BuildAuthURL(relay-one)")}}},
		{"BuildLogoutBodyPost || BuildLogoutResponseBodyPost;BuildLogoutURLRedirect", [][]int{{o("BuildLogoutBodyPost")}, {o("BuildLogoutResponseBodyPost"), o("BuildLogoutURLRedirect")}}},
		{"Validate(E) || Validate(E)", [][]int{{o("ValidateEncodedResponse(E)")}, {o("ValidateEncodedResponse(E)")}}},
		{"Validate(E) || Validate(A);Validate(E)", [][]int{{o("ValidateEncodedResponse(E)")}, {o("ValidateEncodedResponse(A)"), o("ValidateEncodedResponse(E)")}}},
		{"Validate(compressed) || Validate(another compressed);Validate(compressed)", [][]int{{o("ValidateEncodedResponse(D)")}, {o("ValidateEncodedResponse(D2)"), o("ValidateEncodedResponse(D)")}}},
		{"defaults: BuildLogoutResponseDocument;BuildAuthRequest || BuildLogoutRequestDocument", [][]int{{o("BuildLogoutResponseDocument"), o("BuildAuthRequest")}, {o("BuildLogoutRequestDocument")}}},
		{"defaults: SigningContext;BuildLogoutResponseBodyPost || BuildAuthURLRedirect;SigningContext", [][]int{{o("SigningContext"), o("BuildLogoutResponseBodyPost")}, {o("BuildAuthURLRedirect"), o("SigningContext")}}},
		{"two providers: Validate(F) || tenant2:Validate(F);tenant2:Validate(A)", [][]int{{o("ValidateEncodedResponse(F)")}, {o("tenant2:ValidateEncodedResponse(F)"), o("tenant2:ValidateEncodedResponse(A)")}}},
		{"two providers: Validate(F);Validate(A) || tenant2:Validate(A);tenant2:Validate(F)", [][]int{{o("ValidateEncodedResponse(F)"), o("ValidateEncodedResponse(A)")}, {o("tenant2:ValidateEncodedResponse(A)"), o("tenant2:ValidateEncodedResponse(F)")}}},
		{"SetSPSigningKeyStore(no signer);BuildAuthRequest || SigningContext", [][]int{{o("SetSPSigningKeyStore(no signer)"), o("BuildAuthRequest")}, {o("SigningContext")}}},
		{"SetSPKeyStore(no signer);BuildLogoutRequestDocument || SetSPSigningKeyStore(no signer);SigningContext", [][]int{{o("SetSPKeyStore(no signer)"), o("BuildLogoutRequestDocument")}, {o("SetSPSigningKeyStore(no signer)"), o("SigningContext")}}},
		{"Validate(expired) || Validate(A)", [][]int{{o("ValidateEncodedResponse(X)")}, {o("ValidateEncodedResponse(A)")}}},
		{"Validate(expired) || RetrieveAssertionInfo(A);Validate(expired)", [][]int{{o("ValidateEncodedResponse(X)")}, {o("RetrieveAssertionInfo(A)"), o("ValidateEncodedResponse(X)")}}},
		{"3 threads: ValidateLogoutResponse || DecodeUnverifiedBaseResponse || ValidateLogoutRequest", [][]int{{o("ValidateLogoutResponse")}, {o("DecodeUnverifiedBaseResponse")}, {o("ValidateLogoutRequest")}}},
	}
	if thorough {
		s = append(s,
			c17Scenario{"3 threads: BuildAuthRequest || BuildLogoutResponseDocument || BuildAuthURLRedirect", [][]int{{o("BuildAuthRequest")}, {o("BuildLogoutResponseDocument")}, {o("BuildAuthURLRedirect")}}},
			c17Scenario{"Validate(A);Validate(B) || Validate(B);Validate(A)", [][]int{{o("ValidateEncodedResponse(A)"), o("ValidateEncodedResponse(B)")}, {o("ValidateEncodedResponse(B)"), o("ValidateEncodedResponse(A)")}}})
	}
	return s
}

type c17Case struct {
	Scenario int   `json:"scenario"`
	Thorough bool  `json:"thorough"`
	Schedule []int `json:"schedule"` // choice vector for the scheduler
}

// c17Execute runs one scenario under the given chooser and returns finding keys.
func c17Execute(sc c17Scenario, ch *mc.Chooser) (keys []string, detail string, res vsched.Result, obs [][]c17Obs) {
	c17Init()
	c17Flavor = 0
	if sc.Defaults() {
		c17Flavor = 1
	}
	defer func() { c17Flavor = 0 }()
	sp := c17SP()
	c17Tenant2 = c17NewTenant2()
	obs = make([][]c17Obs, len(sc.Threads))
	var bodies []func()
	for ti, ops := range sc.Threads {
		ti, ops := ti, ops
		bodies = append(bodies, func() {
			for _, op := range ops {
				obs[ti] = append(obs[ti], c17Do(sp, op))
			}
		})
	}
	res = vsched.Run(func(enabled []int, curEnabled bool, label string) int {
		if curEnabled {
			return ch.Choose("sched@"+label, len(enabled))
		}
		return ch.ChooseFree("sched-free@"+label, len(enabled))
	}, 20000, bodies...)
	detail = fmt.Sprintf("scenario %q schedule(thread ids)=%v points=%d preemptions=%d", sc.Name, res.Trace, res.Points, res.Preempted)
	if res.Deadlock {
		keys = append(keys, "C17/interleaving/deadlock")
	}
	if res.Livelock {
		keys = append(keys, "C17/interleaving/horizon-reached")
	}
	for _, p := range res.Panics {
		keys = append(keys, "C17/interleaving/panic")
		detail += " | panic: " + p[:min(len(p), 300)]
	}
	for ti := range obs {
		if len(obs[ti]) != len(sc.Threads[ti]) && !res.Deadlock && !res.Livelock && len(res.Panics) == 0 {
			keys = append(keys, "C17/interleaving/thread-did-not-finish")
		}
		for _, o := range obs[ti] {
			if why := c17Judge(o); why != "" {
				keys = append(keys, "C17/interleaving/"+c17Ops[o.Op]+"/differs-from-call-alone")
				detail += fmt.Sprintf(" | thread %d %s: %s", ti, c17Ops[o.Op], why)
			}
		}
	}
	return dedupe(keys), detail, res, obs
}

func c17Replay(raw json.RawMessage) ([]string, string) {
	var probe struct {
		History []int `json:"history"`
	}
	json.Unmarshal(raw, &probe)
	if probe.History != nil {
		return c17HistoryExec(probe.History)
	}
	var in c17Input
	if json.Unmarshal(raw, &in) == nil && in.Input {
		return c17InputExec(in)
	}
	var rp c17Repeat
	if json.Unmarshal(raw, &rp) == nil && rp.Repeat {
		return c17RepeatExec(rp)
	}
	var c c17Case
	if err := json.Unmarshal(raw, &c); err != nil {
		return nil, err.Error()
	}
	if c.Scenario < 0 {
		return []string{"C17/race-detector/data-race"}, "re-run the free-running race pass: ./run.sh C17 quick"
	}
	sc := c17Scenarios(c.Thorough)[c.Scenario]
	var keys []string
	var detail string
	mc.Replay(c.Schedule, func(ch *mc.Chooser) { keys, detail, _, _ = c17Execute(sc, ch) })
	return keys, detail
}

// ---------- (b) call histories ----------

var c17HistOps = []string{"validate(A)", "validate(B)", "validate(tampered)", "validateLogoutRequest", "validateLogoutResponse", "BuildAuthRequest", "Metadata", "RetrieveAssertionInfo(A)", "scribble-over-previous-result", "BuildAuthBodyPost(relay-one)", "BuildAuthBodyPost(relay-two)"}

type c17HistState struct {
	last interface{}
	// results handed out earlier and still held by the caller, with what they looked like
	// when they were returned: a later call must not change them
	held []c17Held
}

type c17Held struct {
	step int
	op   string
	obj  interface{}
	was  string
}

func c17Render(v interface{}) string {
	switch x := v.(type) {
	case []byte:
		return string(x)
	case *types.Response:
		if x == nil {
			return "nil"
		}
		return oracle.FromResponse(x).Key() + fmt.Sprint(x.SignatureValidated)
	case *saml2.AssertionInfo:
		if x == nil {
			return "nil"
		}
		ks := []string{}
		for k := range x.Values {
			ks = append(ks, k+"="+strings.Join(x.Values.GetAll(k), ","))
		}
		sort.Strings(ks)
		return x.NameID + "|" + x.SessionIndex + "|" + strings.Join(ks, ";")
	case *types.EntityDescriptor:
		if x == nil {
			return "nil"
		}
		b, _ := xml.Marshal(x)
		return string(b)
	}
	return ""
}

func c17HistStep(sp *saml2.SAMLServiceProvider, op int, st *c17HistState) string {
	c17Init()
	switch c17HistOps[op] {
	case "validate(A)", "validate(B)", "validate(tampered)":
		m := c17MsgA
		switch c17HistOps[op] {
		case "validate(B)":
			m = c17MsgB
		case "validate(tampered)":
			m = c17Tampered()
		}
		r, cr := validateResponse(sp, m)
		st.last = r
		if !cr.Accepted() {
			return "err:" + cr.Err.Text + cr.Panic
		}
		return oracle.FromResponse(r).Key() + fmt.Sprint(r.SignatureValidated)
	case "validateLogoutRequest":
		r, cr := validateLogoutRequest(sp, c17MsgLogout)
		st.last = r
		if !cr.Accepted() {
			return "err:" + cr.Err.Text + cr.Panic
		}
		return fmt.Sprint(r.ID, r.SignatureValidated, r.NameID.Value, r.Issuer.Value)
	case "validateLogoutResponse":
		l := idp.DefaultLogout("LogoutResponse")
		r, cr := validateLogoutResponse(sp, idp.RenderLogout(l))
		st.last = r
		if !cr.Accepted() {
			return "err:" + cr.Err.Text + cr.Panic
		}
		return fmt.Sprint(r.ID, r.SignatureValidated, r.InResponseTo, r.Issuer.Value)
	case "BuildAuthRequest":
		o := c17Do(sp, opIdx("BuildAuthRequest"))
		st.last = nil
		if why := c17Judge(o); why != "" {
			return "bad:" + why
		}
		return "ok"
	case "Metadata":
		m, err := sp.Metadata()
		st.last = m
		if err != nil {
			return "err:" + err.Error()
		}
		b, _ := xml.Marshal(m)
		return string(b)
	case "RetrieveAssertionInfo(A)":
		i, cr := retrieveInfo(sp, c17MsgA)
		st.last = i
		if !cr.Accepted() {
			return "err:" + cr.Err.Text + cr.Panic
		}
		ks := []string{}
		for k := range i.Values {
			ks = append(ks, k+"="+strings.Join(i.Values.GetAll(k), ","))
		}
		sort.Strings(ks)
		return i.NameID + "|" + i.SessionIndex + "|" + strings.Join(ks, ";") + fmt.Sprint(len(i.Assertions), i.ResponseSignatureValidated)
	case "BuildAuthBodyPost(relay-one)", "BuildAuthBodyPost(relay-two)":
		o := c17Do(sp, opIdx(c17HistOps[op]))
		st.last = o.Bytes
		if why := c17Judge(o); why != "" {
			return "bad:" + why
		}
		return "ok"
	case "scribble-over-previous-result":
		// the scribbled object is no longer expected to stay as it was
		if n := len(st.held); n > 0 && st.held[n-1].obj != nil && fmt.Sprintf("%p", st.held[n-1].obj) == fmt.Sprintf("%p", st.last) {
			st.held = st.held[:n-1]
		}
		switch v := st.last.(type) {
		case *types.Response:
			if v != nil {
				v.ID = "scribbled"
				if len(v.Assertions) > 0 {
					if v.Assertions[0].Subject != nil && v.Assertions[0].Subject.NameID != nil {
						v.Assertions[0].Subject.NameID.Value = evilName
					}
					if v.Assertions[0].AttributeStatement != nil {
						v.Assertions[0].AttributeStatement.Attributes = nil
					}
					v.Assertions = append(v.Assertions, v.Assertions[0])
				}
			}
		case *saml2.AssertionInfo:
			if v != nil {
				v.NameID = evilName
				for k := range v.Values {
					delete(v.Values, k)
				}
				v.Values["injected"] = types.Attribute{Name: "injected"}
				if len(v.Assertions) > 0 && v.Assertions[0].Subject != nil && v.Assertions[0].Subject.NameID != nil {
					v.Assertions[0].Subject.NameID.Value = evilName
				}
			}
		case *types.EntityDescriptor:
			if v != nil {
				v.EntityID = "scribbled"
				if v.SPSSODescriptor != nil {
					for i := range v.SPSSODescriptor.KeyDescriptors {
						for j := range v.SPSSODescriptor.KeyDescriptors[i].KeyInfo.X509Data.X509Certificates {
							v.SPSSODescriptor.KeyDescriptors[i].KeyInfo.X509Data.X509Certificates[j].Data = "scribbled"
						}
					}
					v.SPSSODescriptor.AssertionConsumerServices = nil
				}
			}
		case *saml2.LogoutRequest:
			if v != nil {
				v.ID = "scribbled"
				if v.NameID != nil {
					v.NameID.Value = evilName
				}
			}
		case *types.LogoutResponse:
			if v != nil {
				v.ID = "scribbled"
			}
		case []byte:
			// a POST body: the caller may reuse the buffer it was given
			for i := range v {
				v[i] = 'X'
			}
		}
		// and every element of every slice, every map entry and every field reachable from it
		if st.last != nil {
			scribbleDeep(reflect.ValueOf(st.last), 0, map[uintptr]bool{})
		}
		return "scribbled"
	}
	return ""
}

var c17LROnce sync.Once
var c17LRMsg string

func c17LogoutResponse() string {
	c17LROnce.Do(func() {
		l := idp.DefaultLogout("LogoutResponse")
		l.Sign = idp.SignSpec{Key: "K3"}
		c17LRMsg = idp.RenderLogout(l)
	})
	return c17LRMsg
}

var c17TamperedOnce sync.Once
var c17TamperedMsg string

func c17Tampered() string {
	c17TamperedOnce.Do(func() {
		a := idp.DefaultResponse(1)
		uniq(&a, "c17t")
		a.Sign = idp.SignSpec{Key: "K3", Tamper: "content"}
		c17TamperedMsg = idp.RenderResponse(a)
	})
	return c17TamperedMsg
}

func snapshotSP(sp *saml2.SAMLServiceProvider) string {
	var sb strings.Builder
	snapshot(reflect.ValueOf(sp).Elem(), 0, map[uintptr]bool{}, &sb)
	return sb.String()
}

// c17Refs holds the outcome of every history operation on a fresh instance, taken before any
// history has run in this process: a fresh instance made later shares package-level state with
// the instance under test, so it cannot vouch for it.
var (
	c17RefOnce sync.Once
	c17Refs    = map[int]string{}
)

func c17HistRefs() {
	c17RefOnce.Do(func() {
		for op := range c17HistOps {
			if c17HistOps[op] != "scribble-over-previous-result" {
				c17Refs[op] = c17HistStep(c17SP(), op, &c17HistState{})
			}
		}
	})
}

func c17HistoryExec(hist []int) (keys []string, detail string) {
	c17HistRefs()
	sp := c17SP()
	st := &c17HistState{}
	before := snapshotSP(sp)
	names := []string{}
	for i, op := range hist {
		names = append(names, c17HistOps[op])
		got := c17HistStep(sp, op, st)
		// results handed out by earlier steps must still look as they did
		for _, h := range st.held {
			if now := c17Render(h.obj); now != h.was {
				keys = append(keys, "C17/history/earlier-result-changed-by-later-call/"+h.op)
				detail += fmt.Sprintf(" | the result of step %d (%s) changed after step %d (%s)", h.step, h.op, i, c17HistOps[op])
			}
		}
		if c17HistOps[op] != "scribble-over-previous-result" && st.last != nil {
			if w := c17Render(st.last); w != "" && w != "nil" {
				st.held = append(st.held, c17Held{step: i, op: c17HistOps[op], obj: st.last, was: w})
			}
		}
		after := snapshotSP(sp)
		if after != before {
			keys = append(keys, "C17/history/configuration-modified-by/"+c17HistOps[op])
			detail += fmt.Sprintf(" | step %d %s changed the service provider's configuration", i, c17HistOps[op])
			before = after
		}
		if c17HistOps[op] == "scribble-over-previous-result" {
			continue
		}
		fresh := c17HistStep(c17SP(), op, &c17HistState{})
		if got != fresh {
			keys = append(keys, "C17/history/"+c17HistOps[op]+"/outcome-differs-from-fresh-instance")
			detail += fmt.Sprintf(" | step %d %s: outcome differs from a fresh instance", i, c17HistOps[op])
		} else if ref := c17Refs[op]; got != ref {
			keys = append(keys, "C17/history/"+c17HistOps[op]+"/outcome-differs-from-the-same-call-before-any-result-was-modified")
			detail += fmt.Sprintf(" | step %d %s: outcome (also on a fresh instance) differs from the outcome at process start: %.300q vs %.300q", i, c17HistOps[op], got, ref)
		}
	}
	return dedupe(keys), "history " + strings.Join(names, " ; ") + detail
}

// ---------- (d) inputs handed to the validators stay as they were ----------

// c17Input is one decoded message handed to an exported validator that takes a struct: the
// profile-fault dimensions of C03 (n assertions), optionally with one time bound padded with
// whitespace (kept as written by encoding/xml), or a decoded logout message.
type c17Input struct {
	Input bool    `json:"decoded_input"`
	Kind  string  `json:"kind"` // Response | LogoutRequest | LogoutResponse
	D     c03Dims `json:"dims,omitempty"`
	// Pad: 0 none; otherwise bound (1 NotBefore, 2 Conditions NotOnOrAfter, 3 SubjectConfirmationData
	// NotOnOrAfter) + 3*(style-1), style 1 leading space, 2 trailing space, 3 newline around, 4 tab+space around
	Pad    int `json:"padded_bound,omitempty"`
	Logout int `json:"logout_variant,omitempty"` // 0 genuine, 1 wrong destination, 2 no issuer, 3 non-success status / no NameID
}

func c17Pad(v string, style int) string {
	switch style {
	case 1:
		return " " + v
	case 2:
		return v + " "
	case 3:
		return "\n" + v + "\n"
	}
	return "\t " + v + " \t"
}

func c17InputExec(c c17Input) (keys []string, detail string) {
	sp := c17SP()
	changed := func(what string, v interface{}, call func()) {
		before := snapshotOf(v)
		p := guard(call)
		if after := snapshotOf(v); after != before {
			keys = append(keys, "C17/input-modified-by/"+what)
			i := 0
			for i < len(before) && i < len(after) && before[i] == after[i] {
				i++
			}
			detail += fmt.Sprintf(" | %s changed the struct it was given (panic=%q): ...%.120q became ...%.120q", what, p, before[max(0, i-40):], after[max(0, i-40):])
		}
	}
	switch c.Kind {
	case "Response":
		spec := c03Spec(c.D, 0)
		if c.Pad > 0 && len(spec.Assertions) > 0 {
			a := &spec.Assertions[0]
			style := (c.Pad-1)/3 + 1
			switch (c.Pad - 1) % 3 {
			case 0:
				a.NotBefore = c17Pad(a.NotBefore, style)
			case 1:
				a.NotOnOrAfter = c17Pad(a.NotOnOrAfter, style)
			case 2:
				a.SCDNotOnOrAfter = c17Pad(a.SCDNotOnOrAfter, style)
			}
		}
		raw, _ := base64Decode(idp.RenderResponse(spec))
		decoded := &types.Response{}
		if err := xmlUnmarshal(raw, decoded); err != nil {
			return nil, "not decodable: " + err.Error()
		}
		detail = fmt.Sprintf("%+v", c)
		changed("Validate", decoded, func() { sp.Validate(decoded) })
		for i := range decoded.Assertions {
			a := &decoded.Assertions[i]
			changed("VerifyAssertionConditions", a, func() { sp.VerifyAssertionConditions(a) })
		}
	default:
		l := idp.DefaultLogout(c.Kind)
		switch c.Logout {
		case 1:
			l.Destination = "https://evil.example.com/slo"
		case 2:
			l.Issuer = idp.Absent
		case 3:
			l.Status, l.NameID = "urn:oasis:names:tc:SAML:2.0:status:Responder", idp.Absent
		}
		raw, _ := base64Decode(idp.RenderLogout(l))
		detail = fmt.Sprintf("%+v", c)
		if c.Kind == "LogoutRequest" {
			decoded := &saml2.LogoutRequest{}
			if err := xmlUnmarshal(raw, decoded); err != nil {
				return nil, "not decodable: " + err.Error()
			}
			changed("ValidateDecodedLogoutRequest", decoded, func() { sp.ValidateDecodedLogoutRequest(decoded) })
		} else {
			decoded := &types.LogoutResponse{}
			if err := xmlUnmarshal(raw, decoded); err != nil {
				return nil, "not decodable: " + err.Error()
			}
			changed("ValidateDecodedLogoutResponse", decoded, func() { sp.ValidateDecodedLogoutResponse(decoded) })
		}
	}
	return dedupe(keys), detail
}

func c17Inputs() []c17Input {
	var out []c17Input
	for n := 1; n <= 2; n++ {
		g := c03Gen(n)
		mc.Enumerate(1, nil, func(ch *mc.Chooser) { out = append(out, c17Input{Input: true, Kind: "Response", D: g(ch)}) })
	}
	for pad := 1; pad <= 12; pad++ {
		for n := 1; n <= 2; n++ {
			d := c03Dims{N: n}
			for i := 0; i < n; i++ {
				d.A = append(d.A, [4]int{})
			}
			out = append(out, c17Input{Input: true, Kind: "Response", D: d, Pad: pad})
		}
	}
	for _, k := range []string{"LogoutRequest", "LogoutResponse"} {
		for v := 0; v < 4; v++ {
			out = append(out, c17Input{Input: true, Kind: k, Logout: v})
		}
	}
	return out
}

// ---------- (e) identical calls give identical outcomes ----------

// c17Repeat: one unsigned Response holding a genuine K3-signed assertion and one that does not
// verify (signed by a key the provider does not trust, or not signed at all), in either order,
// is validated many times over, each time on a fresh provider. Every delivery must be refused,
// and all deliveries must fare the same: an outcome that depends on which of several internal
// steps finishes first is not an outcome the call "would have returned alone".
type c17Repeat struct {
	Repeat bool `json:"repeated_identical_call"`
	Shape  int  `json:"shape"` // 0 genuine small + forged large, 1 forged large + genuine small, 2 genuine + unsigned, 3 unsigned + genuine
	Times  int  `json:"times"`
}

func c17RepeatMsg(shape int) string {
	r := idp.DefaultResponse(2)
	uniq(&r, fmt.Sprintf("c17r%d", shape))
	g, f := 0, 1
	if shape%2 == 1 {
		g, f = 1, 0
	}
	r.Assertions[g].Sign = idp.SignSpec{Key: "K3"}
	r.Assertions[f].NameID = evilName
	if shape < 2 {
		r.Assertions[f].Sign = idp.SignSpec{Key: "KA"}
		vals := make([]string, 300)
		for i := range vals {
			vals[i] = fmt.Sprintf("padding-%03d", i)
		}
		r.Assertions[f].AttrStatements = [][]idp.AttrSpec{{{Name: "memberOf", Values: vals}}}
	}
	return idp.RenderResponse(r)
}

func c17RepeatExec(c c17Repeat) (keys []string, detail string) {
	c17Init()
	msg := c17RepeatMsg(c.Shape)
	outcomes := map[string]int{}
	accepted := 0
	for i := 0; i < c.Times; i++ {
		resp, cr := validateResponse(c17SP(), msg)
		o := "err:" + cr.Err.Text + cr.Panic
		if cr.Accepted() {
			accepted++
			o = "accepted:" + oracle.FromResponse(resp).Key()
		}
		outcomes[o]++
	}
	detail = fmt.Sprintf("%+v: %d deliveries, %d accepted, %d distinct outcomes", c, c.Times, accepted, len(outcomes))
	if accepted > 0 {
		keys = append(keys, "C17/repeated-identical-call/accepted-although-an-assertion-does-not-verify")
	}
	if len(outcomes) > 1 {
		keys = append(keys, "C17/repeated-identical-call/outcomes-differ")
		for o, n := range outcomes {
			detail += fmt.Sprintf(" | %dx %.120s", n, o)
		}
	}
	return keys, detail
}

// ---------- (c) free-running race pass ----------

// c17RacePass is the body of the -race binary: the scenario bodies on real goroutines.
func c17RacePass(iter int) {
	c17Init()
	for _, sc := range c17Scenarios(true) {
		c17Flavor = 0
		if sc.Defaults() {
			c17Flavor = 1
		}
		for it := 0; it < iter; it++ {
			sp := c17SP()
			c17Tenant2 = c17NewTenant2()
			var wg sync.WaitGroup
			for rep := 0; rep < 4; rep++ {
				for _, ops := range sc.Threads {
					ops := ops
					wg.Add(1)
					go func() {
						defer wg.Done()
						for _, op := range ops {
							c17Do(sp, op)
						}
					}()
				}
			}
			wg.Wait()
		}
	}
	fmt.Println("C17RACE done")
}

func c17Run(r *mc.Run) {
	c17Init()
	bound := 2
	if r.Thorough() {
		bound = 3
	}
	r.Rule = "(a) E-SCHED: every interleaving with <= 2 (quick) / <= 3 (thorough) preemptions (unbounded for the first-use race) of 24 (thorough 26) scenarios (two with a second provider in the process whose certificate store trusts another key, two that start with a key store the setters refuse, two on a provider with no algorithm and no canonicaliser configured, judged against what each call declares alone) of 2-3 managed goroutines x 1-2 operations out of 28 (incl. two different DEFLATE-compressed Responses, a Response with an encrypted assertion and a Response whose bearer confirmation has expired, which must be rejected whatever runs beside it) on one shared SP with a non-default algorithm and canonicaliser, on an overlay build whose scheduling points are the sync shim operations plus a yield before every statement touching a written package-level variable or written SAMLServiceProvider field; oracle: no deadlock/panic, every call returns what it returns alone on a fresh SP, SigningContext fully configured when observed. (b) E-BFS over call histories: all sequences up to depth 3 (quick) / 4 (thorough) over 11 operations incl. scribbling over the previous result (every field, slice element and map entry reachable from it, in place); deep reflective snapshot of the configuration unchanged, outcome equal to a fresh instance and to the outcome of the same call before any result was written to (package-level state shared by all instances), and every result handed out earlier still unchanged after every later call. (c) free-running -race pass of the same bodies (sampling; supporting). (d) the exported validators that take a decoded struct (Validate, VerifyAssertionConditions, ValidateDecodedLogoutRequest/Response) on every Response within one profile fault of conforming (1-2 assertions, C03's menu), on Responses with one time bound padded by whitespace (3 bounds x 4 paddings), and on 4 variants of each logout message: a deep reflective snapshot of the struct is unchanged by the call. (e) an unsigned Response holding a genuine and a non-verifying assertion (4 shapes) delivered 60 times each to fresh providers: refused every time, with one and the same outcome. non-trivial = an execution with at least one preemption, or a history of length >= 2; distinct = distinct schedule / history"
	r.Assume("scheduling points are sufficient only together with the race pass (c), which is sampling", "the overlay is regenerated from /repo's working tree on every run (instr report in evidence)")
	if b, err := os.ReadFile(os.Getenv("VERIF_INSTR_REPORT")); err == nil {
		var rep map[string]interface{}
		json.Unmarshal(b, &rep)
		r.Set("instrumentation", rep)
		if nm, ok := rep["not_modelled"].([]interface{}); ok && len(nm) > 0 {
			r.Cap(fmt.Sprintf("constructs not modelled by the scheduler shim: %v", nm))
		}
	}
	scs := c17Scenarios(r.Thorough())
	perScenario := map[string]interface{}{}
	for si, sc := range scs {
		b := bound
		if si == 0 {
			b = -1 // unbounded: the first-use race
		}
		outcomes := map[string]int{}
		var n int
		complete := true
		var enumerate func()
		enumerate = func() {
			n, complete = mc.Enumerate(b, r.Expired, func(ch *mc.Chooser) {
				keys, detail, res, obs := c17Execute(sc, ch)
				r.Eval(1)
				r.Transition(res.Points)
				r.State(1)
				if res.Preempted > 0 {
					r.Nontrivial(fmt.Sprintf("%d/%v", si, res.Trace))
				}
				sig := fmt.Sprint(res.Preempted > 0)
				for _, t := range obs {
					for _, o := range t {
						sig += "|" + fmt.Sprint(o.Err == "" && o.Panic == "")
					}
				}
				outcomes[sig]++
				r.Bucket(fmt.Sprintf("interleaving/preemptions=%d", res.Preempted))
				if len(keys) > 0 {
					for _, k := range keys {
						r.Violation(k, detail[:min(len(detail), 1500)], c17Case{Scenario: si, Thorough: r.Thorough(), Schedule: ch.Trace()})
					}
				}
				if res.Preempted == 2 && len(res.Trace)%7 == 0 {
					r.Sample(map[string]interface{}{"scenario": sc.Name, "schedule": res.Trace, "labels": res.Labels})
				}
			})
		}
		// a schedule prefix must replay identically; if it does not, the library kept state
		// from an earlier execution (process-global mutable state): the exploration of this
		// scenario is abandoned and the run cannot pass silently
		if p := guard(enumerate); p != "" {
			r.Fail(fmt.Sprintf("scenario %q: executions are not reproducible (%s): the library keeps state across executions", sc.Name, p))
		}
		if !complete {
			r.Cap("scheduler exploration of scenario " + sc.Name + " stopped by the internal deadline")
		}
		perScenario[sc.Name] = map[string]interface{}{"schedules": n, "preemption_bound": b}
	}
	r.Set("schedules_per_scenario", perScenario)

	// (b) histories
	depth := 3
	if r.Thorough() {
		depth = 4
	}
	var hists [][]int
	var rec func(prefix []int)
	rec = func(prefix []int) {
		if len(prefix) > 0 {
			hists = append(hists, append([]int(nil), prefix...))
		}
		if len(prefix) == depth {
			return
		}
		for op := range c17HistOps {
			rec(append(prefix, op))
		}
	}
	rec(nil)
	r.Set("histories", len(hists))
	r.Set("history_depth", depth)
	// sequential on purpose: the library instance under test must be the only thing running,
	// otherwise shared state introduced by an edit would be raced by the harness itself
	for i := range hists {
		if i%64 == 0 && r.Expired() {
			r.Cap(fmt.Sprintf("history phase stopped by the internal deadline after %d of %d histories", i, len(hists)))
			break
		}
		var keys []string
		var detail string
		if p := guard(func() { keys, detail = c17HistoryExec(hists[i]) }); p != "" {
			keys, detail = []string{"C17/history/panic"}, fmt.Sprintf("history %v: panic: %s", hists[i], p)
		}
		r.Eval(len(hists[i]))
		r.State(1)
		r.Transition(len(hists[i]))
		r.Bucket(fmt.Sprintf("history/len=%d", len(hists[i])))
		if len(hists[i]) >= 2 {
			r.Nontrivial(fmt.Sprint("h", hists[i]))
		}
		for _, k := range keys {
			r.Violation(k, detail, map[string]interface{}{"history": hists[i]})
		}
	}

	// (d) decoded inputs
	ins := c17Inputs()
	r.Set("decoded_inputs", len(ins))
	for _, in := range ins {
		keys, detail := c17InputExec(in)
		r.Eval(1)
		r.State(1)
		r.Transition(1)
		r.Bucket("decoded-input")
		r.Nontrivial(fmt.Sprintf("%+v", in))
		for _, k := range keys {
			r.Violation(k, detail[:min(len(detail), 1500)], in)
		}
	}

	// (e) repeated identical calls
	for shape := 0; shape < 4; shape++ {
		rp := c17Repeat{Repeat: true, Shape: shape, Times: 60}
		keys, detail := c17RepeatExec(rp)
		r.Eval(rp.Times)
		r.State(1)
		r.Transition(rp.Times)
		r.Bucket("repeated-identical-call")
		r.Nontrivial(fmt.Sprintf("%+v", rp))
		for _, k := range keys {
			r.Violation(k, detail[:min(len(detail), 1500)], rp)
		}
	}

	// (c) race pass
	if bin := os.Getenv("VERIF_RACE_BIN"); bin != "" {
		iter := "20"
		if r.Thorough() {
			iter = "200"
		}
		limit := 6 * time.Minute
		if r.Thorough() {
			limit = 30 * time.Minute
		}
		ctx, cancel := context.WithTimeout(context.Background(), limit)
		defer cancel()
		cmd := exec.CommandContext(ctx, bin, "c17-racepass", iter)
		cmd.Env = append(os.Environ(), "GORACE=halt_on_error=0 exitcode=66")
		out, err := cmd.CombinedOutput()
		s := string(out)
		races := strings.Count(s, "WARNING: DATA RACE")
		r.Set("race_pass", map[string]interface{}{"iterations": iter, "data_races_reported": races, "finished": strings.Contains(s, "C17RACE done"), "note": "free-running sampling pass, supporting only"})
		r.Bucket("race-pass")
		if races > 0 {
			i := strings.Index(s, "WARNING: DATA RACE")
			os.MkdirAll(filepath.Join(mc.Root, "replays", "C17"), 0755)
			os.WriteFile(filepath.Join(mc.Root, "replays", "C17", "race-report.txt"), out, 0644)
			r.Violation("C17/race-detector/data-race", s[i:min(len(s), i+1500)], c17Case{Scenario: -1})
		} else if !strings.Contains(s, "C17RACE done") {
			r.Cap(fmt.Sprintf("race pass did not finish: %v %.200s", err, s))
		}
	} else {
		r.Cap("race pass not run (VERIF_RACE_BIN unset)")
	}
}

func init() {
	extraCommands["c17-racepass"] = func(args []string) {
		n := 20
		if len(args) > 0 {
			fmt.Sscan(args[0], &n)
		}
		c17RacePass(n)
	}
	register("C17", &check{run: c17Run, replay: c17Replay, quick: 400 * time.Second, thor: 2400 * time.Second})
}

func base64Decode(s string) ([]byte, error) { return base64.StdEncoding.DecodeString(s) }
