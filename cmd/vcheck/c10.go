package main

import (
	"encoding/json"
	"fmt"
	"regexp"
	"strings"
	"sync"
	"time"

	"github.com/beevik/etree"
	saml2 "github.com/russellhaering/gosaml2"
	"github.com/russellhaering/gosaml2/types"

	"verif/idp"
	"verif/mc"
	"verif/world"
)

// C10 — logout messages: addressing, issuer, version, status; honest signed flag.

var c10Sign = []string{"unsigned", "K1", "K2", "KA-untrusted", "K1-then-tampered",
	"genuine-nested-under-attacker-root-same-ID", "genuine-nested-under-attacker-root-other-ID",
	"genuine-signature-moved-onto-attacker-root", "genuine-as-direct-child-of-attacker-root"}

type c10Case struct {
	Kind     string `json:"kind"`
	Version  int    `json:"version"` // 0 ok, 1 "1.1", 2 absent
	Dest     int    `json:"dest"`    // 0 SLO URL, 1 absent, 2 empty, 3 ACS URL (wrong), 4 evil (wrong)
	Issuer   int    `json:"issuer"`  // 0 ok, 1 wrong, 2 absent
	Status   int    `json:"status"`  // 0 ok, 1 Status absent, 2 StatusCode absent, 3 other
	Sign     int    `json:"sign"`
	Deflate  bool   `json:"deflate"`
	SkipSig  bool   `json:"skip_sig"`
	NoIssuer bool   `json:"no_idp_issuer"`
	// FlagAttr: the (unsigned) root carries an attribute SignatureValidated="true"
	FlagAttr bool `json:"self_asserted_flag_attr,omitempty"`
	// Shadow: after signing, declarations of unused namespace prefixes named like the decoded
	// attributes are added (xmlns:ID, xmlns:InResponseTo, xmlns:Destination, xmlns:Version on
	// the root, xmlns:Value on StatusCode); an exclusive-c14n signature does not cover them
	Shadow bool `json:"xmlns_shadow,omitempty"`
	// XmlAttr k>0 (written by the sender before it signs): beside the SAML attribute that makes
	// the message faulty there is an attribute of the same local name in another namespace that
	// holds the value the check wants - with the reserved, never declared xml: prefix (k odd) or a
	// declared prefix (k even); 1,2 StatusCode Value, 3,4 Destination, 5,6 Version. The SAML
	// attribute is the unqualified one
	XmlAttr int `json:"same_name_attribute_in_another_namespace,omitempty"`
}

func c10Spec(c c10Case) idp.LogoutSpec {
	l := idp.DefaultLogout(c.Kind)
	switch c.Version {
	case 1:
		l.Version = "1.1"
	case 2:
		l.Version = idp.Absent
	}
	switch c.Dest {
	case 1:
		l.Destination = idp.Absent
	case 2:
		l.Destination = ""
	case 3:
		l.Destination = world.ACS
	case 4:
		l.Destination = "https://evil.example.com/slo"
	case 5:
		l.Destination = c03NearMiss(world.SPSLO) // differs in letter case only
	case 6:
		l.Destination = c03NearMiss(world.SPSLO, 1) // differs by a trailing slash
	}
	if c.Dest >= 7 {
		// the same URL to a URL library (query, fragment, userinfo, host case, default port, dot
		// segment, percent-encoded letter), another string
		l.Destination = c03NearMiss(world.SPSLO, c.Dest-4)
	}
	if c.Issuer >= 5 {
		l.Issuer = c03NearMiss(world.IDPIssuer, c.Issuer-2)
	}
	switch c.Issuer {
	case 3:
		l.Issuer = c03NearMiss(world.IDPIssuer)
	case 4:
		l.Issuer = c03NearMiss(world.IDPIssuer, 1)
	case 1:
		l.Issuer = "https://other-idp.example.com/metadata"
	case 2:
		l.Issuer = idp.Absent
	}
	switch c.Status {
	case 1:
		l.Status = "nostatus"
	case 2:
		l.Status = "nocode"
	case 3:
		l.Status = "urn:oasis:names:tc:SAML:2.0:status:Responder"
	case 4:
		l.Status = "urn:oasis:names:tc:SAML:2.0:status:Responder>" + idp.StatusSuccess
	case 5:
		l.Status = idp.StatusSuccess + ">urn:oasis:names:tc:SAML:2.0:status:PartialLogout"
	}
	switch c.Sign {
	case 1:
		l.Sign = idp.SignSpec{Key: "K1"}
	case 2:
		l.Sign = idp.SignSpec{Key: "K2"}
	case 3:
		l.Sign = idp.SignSpec{Key: "KA"}
	case 4:
		l.Sign = idp.SignSpec{Key: "K1", Tamper: "content"}
	}
	l.Layout.Deflate = c.Deflate
	return l
}

// c10Render builds the input; for the wrapping states the genuine K1-signed message with the
// case's fields is embedded into (or its signature moved onto) an attacker-made root of the
// same kind whose own fields all pass the field checks.
func c10Render(c c10Case) (enc string, genuineID string) {
	if c.Sign < 5 && c.Shadow {
		// after signing: declarations of unused namespace prefixes named like the decoded
		// attributes (an exclusive-c14n signature does not cover them)
		doc := idp.BuildLogout(c10Spec(c))
		x := string(idp.Bytes(doc, idp.Layout{}))
		gt := strings.Index(x, ">")
		if x[gt-1] == '/' {
			gt--
		}
		x = x[:gt] + ` xmlns:ID="_evil-logout" xmlns:InResponseTo="_evil-req" xmlns:Destination="` + world.SPSLO + `" xmlns:Version="2.0"` + x[gt:]
		x = regexp.MustCompile(`(<samlp:StatusCode[^>]*?)(/?>)`).ReplaceAllString(x, `${1} xmlns:Value="urn:oasis:names:tc:SAML:2.0:status:Success"${2}`)
		return idp.Encode([]byte(x), c.Deflate), ""
	}
	if c.Sign < 5 && c.XmlAttr > 0 {
		l := c10Spec(c)
		sign := l.Sign
		l.Sign = idp.SignSpec{}
		doc := idp.BuildLogout(l)
		root := doc.Root()
		prefix := "xml"
		if c.XmlAttr%2 == 0 {
			prefix = "q"
			root.Attr = append([]etree.Attr{{Space: "xmlns", Key: "q", Value: "urn:example:q"}}, root.Attr...)
		}
		switch (c.XmlAttr - 1) / 2 {
		case 0:
			for _, st := range root.ChildElements() {
				if st.Tag == "Status" {
					for _, sc := range st.ChildElements() {
						if sc.Tag == "StatusCode" {
							sc.CreateAttr(prefix+":Value", idp.StatusSuccess)
						}
					}
				}
			}
		case 1:
			root.CreateAttr(prefix+":Destination", world.SPSLO)
		case 2:
			root.CreateAttr(prefix+":Version", "2.0")
		}
		if sign.Signed() {
			idp.SignInPlace(root, sign)
		}
		return idp.Encode(idp.Bytes(doc, idp.Layout{}), c.Deflate), ""
	}
	if c.Sign < 5 {
		if c.FlagAttr {
			doc := idp.BuildLogout(c10Spec(c))
			doc.Root().CreateAttr("SignatureValidated", "true")
			return idp.Encode(idp.Bytes(doc, idp.Layout{}), c.Deflate), ""
		}
		return idp.RenderLogout(c10Spec(c)), ""
	}
	g := c10Spec(c)
	g.Sign = idp.SignSpec{Key: "K1"}
	gdoc := idp.BuildLogout(g)
	groot := gdoc.Root()
	gdoc.RemoveChild(groot)

	ev := idp.DefaultLogout(c.Kind)
	ev.ID = "_evil-logout"
	ev.NameID = evilName
	ev.InResponseTo = "_evil-req"
	if c.Sign == 5 || c.Sign == 7 {
		ev.ID = g.ID
	}
	edoc := idp.BuildLogout(ev)
	eroot := edoc.Root()
	switch c.Sign {
	case 5, 6:
		wr := wrapper("Extensions")
		wr.AddChild(groot)
		insertAfterIssuer(eroot, wr)
	case 7:
		sg := ownSig(groot)
		groot.RemoveChild(sg)
		insertAfterIssuer(eroot, sg)
	case 8:
		eroot.AddChild(groot)
	}
	return idp.Encode(idp.Bytes(edoc, idp.Layout{}), c.Deflate), g.ID
}

func c10Model(c c10Case) (v []c03Viol) {
	if c.Version != 0 {
		v = append(v, c03Viol{"Version", []string{"SAML version", "Version"}, []string{"ErrInvalidValue", "ErrMissingElement"}})
	}
	if c.Dest >= 3 {
		v = append(v, c03Viol{"Destination", []string{"Destination"}, []string{"ErrInvalidValue"}})
	}
	if c.Issuer == 2 {
		v = append(v, c03Viol{"Issuer absent", []string{"Issuer"}, []string{"ErrMissingElement"}})
	}
	if (c.Issuer == 1 || c.Issuer >= 3) && !c.NoIssuer {
		v = append(v, c03Viol{"Issuer wrong", []string{"Issuer"}, []string{"ErrInvalidValue"}})
	}
	if c.Kind == "LogoutResponse" {
		switch c.Status {
		case 1:
			v = append(v, c03Viol{"Status absent", []string{"Status"}, []string{"ErrMissingElement"}})
		case 2:
			v = append(v, c03Viol{"StatusCode absent", []string{"StatusCode"}, []string{"ErrMissingElement"}})
		case 3, 4:
			v = append(v, c03Viol{"StatusCode not Success", []string{"StatusCode"}, []string{"ErrInvalidValue"}})
		}
	}
	return v
}

type c10Got struct {
	Flag                                          bool
	ID, InResponseTo, Issuer, NameID, Destination string
}

func c10Call(c c10Case, enc string) (c10Got, callResult) {
	conf := world.SPConf{Store: []string{"K1", "K2"}, SkipSig: c.SkipSig, NoIssuer: c.NoIssuer}
	var g c10Got
	if c.Kind == "LogoutRequest" {
		res, r := validateLogoutRequest(conf.Build(), enc)
		if r.Accepted() {
			g = c10Got{Flag: res.SignatureValidated, ID: res.ID, Destination: res.Destination}
			if res.Issuer != nil {
				g.Issuer = res.Issuer.Value
			}
			if res.NameID != nil {
				g.NameID = res.NameID.Value
			}
		}
		return g, r
	}
	res, r := validateLogoutResponse(conf.Build(), enc)
	if r.Accepted() {
		g = c10Got{Flag: res.SignatureValidated, ID: res.ID, InResponseTo: res.InResponseTo, Destination: res.Destination}
		if res.Issuer != nil {
			g.Issuer = res.Issuer.Value
		}
	}
	return g, r
}

func c10Exec(c c10Case) (keys []string, detail, class string) {
	enc, _ := c10Render(c)
	got, r := c10Call(c, enc)
	v := c10Model(c)
	whats := []string{}
	for _, x := range v {
		whats = append(whats, x.What)
	}
	detail = fmt.Sprintf("case=%+v sign=%s violated(model)=%v | accepted=%v flag=%v got=%+v err=%s/%s %q panic=%q", c, c10Sign[c.Sign], whats, r.Accepted(), got.Flag, got, r.Err.Type, r.Err.Key, r.Err.Text, r.Panic)
	kp := "C10/" + c.Kind + "/"
	if r.Panic != "" {
		return []string{kp + "panic"}, detail, "panic"
	}
	spec := c10Spec(c)
	fieldsOfSigned := func() bool {
		ok := got.ID == spec.ID
		if spec.Issuer != idp.Absent {
			ok = ok && got.Issuer == spec.Issuer
		}
		if spec.Destination != idp.Absent {
			ok = ok && got.Destination == spec.Destination
		} else {
			ok = ok && got.Destination == ""
		}
		if c.Kind == "LogoutRequest" {
			ok = ok && got.NameID == spec.NameID
		} else {
			ok = ok && got.InResponseTo == spec.InResponseTo
		}
		return ok
	}
	if c.Sign >= 5 {
		// wrapping states: invariant only
		switch {
		case r.Accepted() && got.Flag && c.SkipSig:
			return []string{kp + "flag-true-with-signature-checking-off"}, detail, "wrapped/FLAGGED"
		case r.Accepted() && got.Flag && !fieldsOfSigned():
			return []string{kp + "wrapped-content-reported-as-validated/" + c10Sign[c.Sign]}, detail, "wrapped/FLAGGED-EVIL"
		case r.Accepted() && got.Flag:
			return nil, detail, "wrapped/flagged-genuine-fields"
		case r.Accepted():
			return nil, detail, "wrapped/accepted-unflagged/" + c10Sign[c.Sign]
		}
		return nil, detail, "wrapped/rejected/" + c10Sign[c.Sign]
	}
	signed := c.Sign != 0
	honoured := c.Sign == 1 || c.Sign == 2
	sigBad := !c.SkipSig && signed && !honoured
	wantAccept := len(v) == 0 && !sigBad
	wantFlag := !c.SkipSig && honoured
	fc := c03FaultClass(v)
	switch {
	case wantAccept && !r.Accepted():
		return []string{kp + "conforming-message-rejected/" + c10Sign[c.Sign]}, detail, "conforming/REJECTED"
	case !wantAccept && r.Accepted() && sigBad:
		return []string{kp + "bad-signature-accepted/" + c10Sign[c.Sign]}, detail, "bad-sig/ACCEPTED"
	case !wantAccept && r.Accepted():
		return []string{kp + "accepted-despite/" + fc}, detail, "faulty/ACCEPTED"
	case !wantAccept && !sigBad && !c03Match(r.Err, v):
		return []string{kp + "error-does-not-name-violation/" + fc + "/got=" + r.Err.Type + ":" + r.Err.Key}, detail, "faulty/wrong-error"
	case !wantAccept:
		return nil, detail, "rejected"
	}
	if got.Flag != wantFlag {
		return []string{fmt.Sprintf("%sflag=%v-want=%v/%s/skip=%v", kp, got.Flag, wantFlag, c10Sign[c.Sign], c.SkipSig)}, detail, "accepted/WRONG-FLAG"
	}
	if !fieldsOfSigned() {
		return []string{kp + "returned-fields-differ-from-message"}, detail, "accepted/WRONG-FIELDS"
	}
	if wantFlag {
		return nil, detail, "accepted/flagged"
	}
	return nil, detail, "accepted/unflagged"
}

func c10Replay(raw json.RawMessage) ([]string, string) {
	var probe struct {
		Confusion string `json:"confusion"`
	}
	json.Unmarshal(raw, &probe)
	if probe.Confusion != "" {
		var c c10Confusion
		json.Unmarshal(raw, &c)
		return c10ConfusionExec(c)
	}
	var rt c10Rotate
	if json.Unmarshal(raw, &rt) == nil && rt.Rotate {
		return c10RotateExec(rt)
	}
	var sq c10Seq
	if json.Unmarshal(raw, &sq) == nil && sq.Seq {
		return c10SeqExec(sq)
	}
	var c c10Case
	if err := json.Unmarshal(raw, &c); err != nil {
		return nil, err.Error()
	}
	k, d, _ := c10Exec(c)
	return k, d
}

// ---- rotation: the trusted certificates are replaced on an instance that has already validated ----

// c10Rotate: one instance validates a logout message signed by First under a store trusting
// exactly First; the application then assigns a NEW store object trusting exactly the other key
// (certificate rotation) and, for ClockToo, a new clock object; the instance is then given a
// message signed by the old key (must be rejected) and one signed by the new key (must be
// accepted and flagged).
type c10Rotate struct {
	Rotate   bool   `json:"rotation"`
	Kind     string `json:"kind"`
	First    string `json:"first_trusted"` // K1 | K2
	Deflate  bool   `json:"deflate,omitempty"`
	ClockToo bool   `json:"clock_object_replaced_too,omitempty"`
}

func c10RotateExec(c c10Rotate) (keys []string, detail string) {
	other := map[string]string{"K1": "K2", "K2": "K1"}[c.First]
	msg := func(key string) string {
		l := idp.DefaultLogout(c.Kind)
		l.ID = "_rot-" + key
		l.Sign = idp.SignSpec{Key: key}
		l.Layout.Deflate = c.Deflate
		return idp.RenderLogout(l)
	}
	call := func(sp *saml2.SAMLServiceProvider, m string) (bool, bool, string) {
		if c.Kind == "LogoutRequest" {
			r, cr := validateLogoutRequest(sp, m)
			return cr.Accepted(), r != nil && r.SignatureValidated, cr.Err.Text + cr.Panic
		}
		r, cr := validateLogoutResponse(sp, m)
		return cr.Accepted(), r != nil && r.SignatureValidated, cr.Err.Text + cr.Panic
	}
	sp := world.SPConf{Store: []string{c.First}}.Build()
	a0, f0, e0 := call(sp, msg(c.First))
	next := world.SPConf{Store: []string{other}}.Build()
	sp.IDPCertificateStore = next.IDPCertificateStore
	if c.ClockToo {
		sp.Clock = next.Clock
	}
	a1, f1, e1 := call(sp, msg(c.First))
	a2, f2, e2 := call(sp, msg(other))
	detail = fmt.Sprintf("%+v | trusting %s: %s-signed accepted=%v flag=%v err=%q | store replaced by one trusting only %s: %s-signed accepted=%v flag=%v err=%q; %s-signed accepted=%v flag=%v err=%q",
		c, c.First, c.First, a0, f0, e0, other, c.First, a1, f1, e1, other, a2, f2, e2)
	kp := "C10/certificate-store-replaced-on-a-used-instance/" + c.Kind + "/"
	if !a0 || !f0 {
		keys = append(keys, kp+"genuine-message-rejected-before-rotation")
	}
	if a1 {
		keys = append(keys, kp+"message-signed-by-the-removed-certificate-accepted")
	}
	if !a2 || !f2 {
		keys = append(keys, kp+"message-signed-by-the-new-certificate-rejected")
	}
	return keys, detail
}

func c10Rotations() []c10Rotate {
	var out []c10Rotate
	for _, kind := range []string{"LogoutRequest", "LogoutResponse"} {
		for _, first := range []string{"K1", "K2"} {
			for _, d := range []bool{false, true} {
				for _, ck := range []bool{false, true} {
					out = append(out, c10Rotate{Rotate: true, Kind: kind, First: first, Deflate: d, ClockToo: ck})
				}
			}
		}
	}
	return out
}

// ---- sequences: a genuine message after a delivery whose decoding failed ----

// c10Seq: entry point P is first given a "poison" (a message of the wrong kind, or one whose
// typed attribute does not parse: rejected while being decoded), then entry point T is given a
// genuine K1-signed message. T's outcome must be what it is in a process that has decoded
// nothing else (references are taken at process start: whatever the decoders keep between
// calls is package-level, a fresh instance cannot vouch).
type c10Seq struct {
	Seq    bool `json:"sequence"`
	Poison int  `json:"poison"`
	Target int  `json:"target"`
}

var c10Poisons = []string{"forged LogoutResponse -> LogoutRequest validator", "forged LogoutRequest -> LogoutResponse validator", "forged Response -> LogoutResponse validator",
	"LogoutResponse with unparsable IssueInstant -> LogoutResponse validator", "forged LogoutResponse -> Response pre-decoder", "Response with unparsable IssueInstant -> Response validator", "Response with unparsable IssueInstant -> Response pre-decoder"}
var c10Targets = []string{"LogoutRequest validator", "LogoutResponse validator", "LogoutResponse pre-decoder", "Response validator", "Response pre-decoder"}

func c10SeqPoison(p int) {
	sp := world.SPConf{Store: []string{"K1"}}.Build()
	forged := func(kind string, inst string) string {
		l := idp.DefaultLogout(kind)
		l.ID, l.InResponseTo, l.NameID, l.Issuer = "_forged-id", "_forged-req", evilName, "https://other-idp.example.com/metadata"
		l.Status = "urn:oasis:names:tc:SAML:2.0:status:Responder"
		if inst != "" {
			l.IssueInstant = inst
		}
		return idp.RenderLogout(l)
	}
	forgedResp := func(inst string) string {
		r := idp.DefaultResponse(1)
		r.ID, r.InResponseTo, r.Issuer = "_forged-id", "_forged-req", "https://other-idp.example.com/metadata"
		r.Assertions[0].NameID = evilName
		if inst != "" {
			r.IssueInstant = inst
		}
		return idp.RenderResponse(r)
	}
	guard(func() {
		switch p {
		case 0:
			sp.ValidateEncodedLogoutRequestPOST(forged("LogoutResponse", ""))
		case 1:
			sp.ValidateEncodedLogoutResponsePOST(forged("LogoutRequest", ""))
		case 2:
			sp.ValidateEncodedLogoutResponsePOST(forgedResp(""))
		case 3:
			sp.ValidateEncodedLogoutResponsePOST(forged("LogoutResponse", "yesterday"))
		case 4:
			saml2.DecodeUnverifiedBaseResponse(forged("LogoutResponse", "yesterday"))
		case 5:
			sp.ValidateEncodedResponse(forgedResp("yesterday"))
		case 6:
			saml2.DecodeUnverifiedBaseResponse(forgedResp("yesterday"))
		}
	})
}

func c10SeqTarget(t int) string {
	sp := world.SPConf{Store: []string{"K1"}}.Build()
	lg := func(kind string) string {
		l := idp.DefaultLogout(kind)
		l.Sign = idp.SignSpec{Key: "K1"}
		return idp.RenderLogout(l)
	}
	resp := func() string {
		r := idp.DefaultResponse(1)
		r.Sign = idp.SignSpec{Key: "K1"}
		return idp.RenderResponse(r)
	}
	out := ""
	p := guard(func() {
		switch t {
		case 0:
			r, err := sp.ValidateEncodedLogoutRequestPOST(lg("LogoutRequest"))
			out = fmt.Sprintf("err=%v", err)
			if r != nil {
				out += fmt.Sprintf(" id=%s flag=%v nameid=%v", r.ID, r.SignatureValidated, r.NameID != nil && r.NameID.Value != evilName)
			}
		case 1:
			r, err := sp.ValidateEncodedLogoutResponsePOST(lg("LogoutResponse"))
			out = fmt.Sprintf("err=%v", err)
			if r != nil {
				out += fmt.Sprintf(" id=%s irt=%s flag=%v", r.ID, r.InResponseTo, r.SignatureValidated)
			}
		case 2:
			r, err := saml2.DecodeUnverifiedLogoutResponse(lg("LogoutResponse"))
			out = fmt.Sprintf("err=%v", err)
			if r != nil {
				out += fmt.Sprintf(" id=%s irt=%s dest=%s", r.ID, r.InResponseTo, r.Destination)
			}
		case 3:
			r, err := sp.ValidateEncodedResponse(resp())
			out = fmt.Sprintf("err=%v", err)
			if r != nil {
				out += fmt.Sprintf(" id=%s irt=%s flag=%v n=%d", r.ID, r.InResponseTo, r.SignatureValidated, len(r.Assertions))
			}
		case 4:
			r, err := saml2.DecodeUnverifiedBaseResponse(resp())
			out = fmt.Sprintf("err=%v", err)
			if r != nil {
				out += fmt.Sprintf(" id=%s irt=%s dest=%s", r.ID, r.InResponseTo, r.Destination)
				if r.Issuer != nil {
					out += " issuer=" + r.Issuer.Value
				}
			}
		}
	})
	return out + " panic=" + p
}

var (
	c10SeqRefOnce sync.Once
	c10SeqRefs    []string
)

func c10SeqRef() []string {
	c10SeqRefOnce.Do(func() {
		for t := range c10Targets {
			c10SeqRefs = append(c10SeqRefs, c10SeqTarget(t))
		}
	})
	return c10SeqRefs
}

func c10SeqExec(c c10Seq) (keys []string, detail string) {
	ref := c10SeqRef()[c.Target]
	c10SeqPoison(c.Poison)
	got := c10SeqTarget(c.Target)
	detail = fmt.Sprintf("after [%s]: %s gives {%s}; alone at process start it gave {%s}", c10Poisons[c.Poison], c10Targets[c.Target], got, ref)
	if got != ref {
		return []string{"C10/sequence/genuine-message-after-a-failed-decode-differs/" + strings.ReplaceAll(c10Targets[c.Target], " ", "-")}, detail
	}
	return nil, detail
}

// ---- kind confusion: every genuine message of one kind fed to the validators of the others ----

type c10Confusion struct {
	Confusion string `json:"confusion"` // message kind
	Validator string `json:"validator"`
	Signed    bool   `json:"signed"`
	SkipSig   bool   `json:"skip_sig"`
}

func c10ConfusionExec(c c10Confusion) ([]string, string) {
	var enc string
	sign := idp.SignSpec{}
	if c.Signed {
		sign = idp.SignSpec{Key: "K1"}
	}
	switch c.Confusion {
	case "Response":
		r := idp.DefaultResponse(1)
		r.Destination = idp.Absent
		r.Sign = sign
		enc = idp.RenderResponse(r)
	default:
		l := idp.DefaultLogout(c.Confusion)
		l.Destination = idp.Absent // so that addressing cannot be what rejects it
		l.Sign = sign
		enc = idp.RenderLogout(l)
	}
	conf := world.SPConf{Store: []string{"K1"}, SkipSig: c.SkipSig}
	var r callResult
	switch c.Validator {
	case "Response":
		_, r = validateResponse(conf.Build(), enc)
	case "LogoutRequest":
		_, r = validateLogoutRequest(conf.Build(), enc)
	case "LogoutResponse":
		_, r = validateLogoutResponse(conf.Build(), enc)
	}
	detail := fmt.Sprintf("message=%s validator=%s signed=%v skip=%v | accepted=%v err=%q panic=%q", c.Confusion, c.Validator, c.Signed, c.SkipSig, r.Accepted(), r.Err.Text, r.Panic)
	if r.Panic != "" {
		return []string{"C10/kind-confusion/panic"}, detail
	}
	if c.Confusion != c.Validator && r.Accepted() {
		return []string{fmt.Sprintf("C10/kind-confusion/%s-accepted-by-%s-validator", c.Confusion, c.Validator)}, detail
	}
	// an unsigned SSO Response is rightly rejected when signatures are checked
	if c.Confusion == c.Validator && !r.Accepted() && (c.Signed || c.SkipSig || c.Confusion != "Response") {
		return []string{fmt.Sprintf("C10/kind-confusion/genuine-%s-rejected", c.Confusion)}, detail
	}
	return nil, detail
}

// ---- ValidateDecoded* on hand-built structs ----

func c10DecodedExec(kind string, version, dest, issuer, status int, noIssuer bool) ([]string, string) {
	c := c10Case{Kind: kind, Version: version, Dest: dest, Issuer: issuer, Status: status, NoIssuer: noIssuer}
	spec := c10Spec(c)
	val := func(s string) string {
		if s == idp.Absent {
			return ""
		}
		return s
	}
	sp := world.SPConf{Store: []string{"K1"}, NoIssuer: noIssuer}.Build()
	var err error
	p := guard(func() {
		if kind == "LogoutRequest" {
			req := &saml2.LogoutRequest{ID: spec.ID, Version: val(spec.Version), Destination: val(spec.Destination)}
			if spec.Issuer != idp.Absent {
				req.Issuer = &types.Issuer{Value: spec.Issuer}
			}
			err = sp.ValidateDecodedLogoutRequest(req)
		} else {
			resp := &types.LogoutResponse{ID: spec.ID, Version: val(spec.Version), Destination: val(spec.Destination)}
			if spec.Issuer != idp.Absent {
				resp.Issuer = &types.Issuer{Value: spec.Issuer}
			}
			switch status {
			case 0:
				resp.Status = &types.Status{StatusCode: &types.StatusCode{Value: idp.StatusSuccess}}
			case 2:
				resp.Status = &types.Status{}
			case 3:
				resp.Status = &types.Status{StatusCode: &types.StatusCode{Value: "urn:oasis:names:tc:SAML:2.0:status:Responder"}}
			}
			err = sp.ValidateDecodedLogoutResponse(resp)
		}
	})
	e := describeErr(err)
	v := c10Model(c)
	detail := fmt.Sprintf("ValidateDecoded%s dims=%+v violated(model)=%d err=%s/%s %q panic=%q", kind, c, len(v), e.Type, e.Key, e.Text, p)
	kp := "C10/decoded/" + kind + "/"
	switch {
	case p != "":
		return []string{kp + "panic"}, detail
	case len(v) == 0 && err != nil:
		return []string{kp + "conforming-rejected"}, detail
	case len(v) > 0 && err == nil:
		return []string{kp + "accepted-despite/" + c03FaultClass(v)}, detail
	case len(v) > 0 && !c03Match(e, v):
		return []string{kp + "error-does-not-name-violation/" + c03FaultClass(v)}, detail
	}
	return nil, detail
}

func c10Cases() []c10Case {
	var cases []c10Case
	mc.Enumerate(-1, nil, func(ch *mc.Chooser) {
		c := c10Case{}
		c.Kind = []string{"LogoutRequest", "LogoutResponse"}[ch.Choose("kind", 2)]
		c.Version = ch.Choose("version", 3)
		c.Dest = ch.Choose("dest", 7)
		c.Issuer = ch.Choose("issuer", 5)
		if c.Kind == "LogoutResponse" {
			c.Status = ch.Choose("status", 6)
		}
		c.Sign = ch.Choose("sign", len(c10Sign))
		c.Deflate = ch.Bool("deflate")
		c.SkipSig = ch.Bool("skip")
		c.NoIssuer = ch.Bool("noissuer")
		cases = append(cases, c)
		if c.Sign == 0 {
			c.FlagAttr = true
			cases = append(cases, c)
			c.FlagAttr = false
		}
		if c.Sign < 5 {
			c.Shadow = true
			cases = append(cases, c)
		}
	})
	// a same-named attribute in another namespace beside the faulty SAML attribute
	for _, kind := range []string{"LogoutRequest", "LogoutResponse"} {
		for xa := 1; xa <= 6; xa++ {
			if kind == "LogoutRequest" && xa <= 2 {
				continue
			}
			for _, sign := range []int{0, 1} {
				for _, skip := range []bool{false, true} {
					c := c10Case{Kind: kind, Sign: sign, SkipSig: skip, XmlAttr: xa}
					switch (xa - 1) / 2 {
					case 0:
						c.Status = 3
					case 1:
						c.Dest = 4
					case 2:
						c.Version = 1
					}
					cases = append(cases, c)
				}
			}
		}
	}
	// URL-equivalent near misses of the Destination and of the Issuer
	for _, kind := range []string{"LogoutRequest", "LogoutResponse"} {
		for nm := 3; nm <= 9; nm++ {
			for _, sign := range []int{0, 1} {
				for _, skip := range []bool{false, true} {
					for _, noiss := range []bool{false, true} {
						cases = append(cases, c10Case{Kind: kind, Dest: nm + 4, Sign: sign, SkipSig: skip, NoIssuer: noiss},
							c10Case{Kind: kind, Issuer: nm + 2, Sign: sign, SkipSig: skip, NoIssuer: noiss})
					}
				}
			}
		}
	}
	return cases
}

func c10Run(r *mc.Run) {
	r.Rule = "full product kind(2) x Version(3) x Destination(7: SLO URL, absent, empty, ACS URL, evil, the SLO URL in another letter case / with a trailing slash; plus 7 spellings a URL library would call the same URL: query, fragment, userinfo, host case, default port, dot segment, percent-encoded letter) x Issuer(5 + the same 7 spellings, incl. the issuer in another letter case / with a trailing slash) x Status(6 incl. nested second-level codes, LogoutResponse) x signing state(9: unsigned, K1, K2, untrusted, tampered, 4 wrapping/relocation shapes) x presentation(2) x signature checking(2) x IdP issuer configured(2), unsigned roots also with a self-asserted SignatureValidated attribute; kind-confusion matrix 3x3x2x2; 7 x 5 sequences (a delivery whose decoding fails, then a genuine signed message) through validators and pre-decoders, judged against outcomes taken at process start; a faulty Version / Destination / StatusCode Value beside an attribute of the same local name in another namespace (xml: or a declared prefix) that holds the wanted value, written before signing; 16 rotations (a used instance is given a new certificate store object trusting the other key, with and without a new clock object: the old signer is refused, the new one honoured); ValidateDecoded* on hand-built structs (full field product); non-trivial = the message reached the field checks or the signature logic (all do); distinct = distinct case"
	r.Assume("RSA unforgeable", "goxmldsig canonicalisers used by the harness signer")
	// sequences: references first, while the process has decoded nothing else; the sequences
	// themselves run at the very end, one after the other
	c10SeqRef()
	defer func() {
		for p := range c10Poisons {
			for t := range c10Targets {
				sq := c10Seq{Seq: true, Poison: p, Target: t}
				keys, detail := c10SeqExec(sq)
				r.Eval(2)
				r.State(1)
				r.Transition(2)
				r.Bucket("sequence")
				r.Nontrivial(fmt.Sprintf("%+v", sq))
				for _, k := range keys {
					r.Violation(k, detail, sq)
				}
			}
		}
	}()
	for _, rt := range c10Rotations() {
		keys, detail := c10RotateExec(rt)
		r.Eval(3)
		r.State(1)
		r.Transition(3)
		r.Bucket("rotation")
		r.Nontrivial(fmt.Sprintf("%+v", rt))
		for _, k := range keys {
			r.Violation(k, detail, rt)
		}
	}
	cases := c10Cases()
	n := len(cases)
	r.Set("choice_vectors", n)
	r.State(len(cases))
	fresh := make([]string, len(cases))
	defer livePass(r, len(cases), 3, 90*time.Second, func(i int) string {
		keys, _, class := c10Exec(cases[i])
		return sig(keys, class)
	}, fresh)
	r.Par(len(cases), func(i int) {
		c := cases[i]
		keys, detail, class := c10Exec(c)
		fresh[i] = sig(keys, class)
		r.Eval(1)
		r.Transition(1)
		r.Bucket(class)
		r.Nontrivial(fmt.Sprintf("%+v", c))
		if i%2999 == 0 {
			r.Sample(map[string]interface{}{"case": c, "observed": detail})
		}
		for _, k := range keys {
			r.Violation(k, detail, c)
		}
	})
	kinds := []string{"Response", "LogoutRequest", "LogoutResponse"}
	for _, m := range kinds {
		for _, v := range kinds {
			for _, signed := range []bool{false, true} {
				for _, skip := range []bool{false, true} {
					c := c10Confusion{Confusion: m, Validator: v, Signed: signed, SkipSig: skip}
					keys, detail := c10ConfusionExec(c)
					r.Eval(1)
					r.Bucket("confusion/" + map[bool]string{true: "same-kind", false: "other-kind"}[m == v])
					for _, k := range keys {
						r.Violation(k, detail, c)
					}
				}
			}
		}
	}
	for _, kind := range []string{"LogoutRequest", "LogoutResponse"} {
		for ver := 0; ver < 3; ver++ {
			for d := 0; d < 5; d++ {
				for is := 0; is < 3; is++ {
					for st := 0; st < 4; st++ {
						if kind == "LogoutRequest" && st > 0 {
							continue
						}
						for _, ni := range []bool{false, true} {
							keys, detail := c10DecodedExec(kind, ver, d, is, st, ni)
							r.Eval(1)
							r.Bucket("decoded/" + map[bool]string{true: "violation", false: "ok"}[len(keys) > 0])
							for _, k := range keys {
								// replayed through the encoded path's case struct is not possible; carry dims
								r.Violation(k, detail, map[string]interface{}{"decoded": kind, "dims": []int{ver, d, is, st}, "no_idp_issuer": ni})
							}
						}
					}
				}
			}
		}
	}
}

func init() {
	register("C10", &check{run: c10Run, replay: c10ReplayAll, quick: 200 * time.Second, thor: 600 * time.Second})
}

var c10Memo []c10Case

func c10ReplayAll(raw json.RawMessage) ([]string, string) {
	if keys, detail, ok := liveReplay(raw, "C10", func(string) int {
		if c10Memo == nil {
			c10Memo = c10Cases()
		}
		return len(c10Memo)
	}, func(_ string, i int) string {
		if c10Memo == nil {
			c10Memo = c10Cases()
		}
		k, _, class := c10Exec(c10Memo[i])
		return sig(k, class)
	}); ok {
		return keys, detail
	}
	var probe struct {
		Decoded string `json:"decoded"`
		Dims    []int  `json:"dims"`
		NI      bool   `json:"no_idp_issuer"`
	}
	json.Unmarshal(raw, &probe)
	if probe.Decoded != "" && len(probe.Dims) == 4 {
		return c10DecodedExec(probe.Decoded, probe.Dims[0], probe.Dims[1], probe.Dims[2], probe.Dims[3], probe.NI)
	}
	return c10Replay(raw)
}

var _ = strings.Contains
var _ = etree.NewDocument
