package main

import (
	"bytes"
	"crypto/x509"
	"encoding/base64"
	"encoding/json"
	"encoding/xml"
	"fmt"
	"reflect"
	"strings"
	"time"

	"github.com/beevik/etree"
	saml2 "github.com/russellhaering/gosaml2"
	"github.com/russellhaering/gosaml2/types"
	dsig "github.com/russellhaering/goxmldsig"

	"verif/idp"
	"verif/mc"
	"verif/oracle"
	"verif/recipient"
	"verif/world"
)

// C19 — published metadata matches configuration, the keys really used, and its validity.

var c19Hours = []int64{24, -5, 0, 1, 168, 8760, 1000000}

type c19Case struct {
	Keys  int   `json:"keys"` // index into c19Keys()
	SAR   bool  `json:"sign_authn_requests"`
	Skip  bool  `json:"skip_signature_validation"`
	Str   []int `json:"str"` // issuer, ACS URL, SLO URL: 0 default, k>0 alphabet[k-1]
	Clock int   `json:"clock"`
	SLO   bool  `json:"with_slo"`
	Hours int   `json:"hours"`      // index into c19Hours
	Probe bool  `json:"probe_keys"` // run the signing / decryption cross-checks
	// Custom: field key stores are of a custom type (not dsig.TLSCertKeyStore)
	Custom bool `json:"custom_key_store,omitempty"`
	// EncKey: the key in the encryption slot(s) instead of the usual RSA-2048 ones: "KM"
	// (RSA-3072) or "KL" (RSA-4096)
	EncKey string `json:"encryption_key,omitempty"`
	// Before k>0: another metadata call is made first on the same instance (k=1 Metadata(), k>1
	// MetadataWithSLO(c19Hours[k-2])); the judged call follows it
	Before int `json:"earlier_call_on_the_same_instance,omitempty"`
}

func c19Keys() []c13Keys {
	var out []c13Keys
	for _, k := range c13AllKeys() {
		if k.EncField || k.EncSetter {
			out = append(out, k)
		}
	}
	return out
}

func c19SP(c c19Case) (*saml2.SAMLServiceProvider, c13Keys, []string) {
	k := c19Keys()[c.Keys]
	sp := world.SP()
	vals := []string{world.SPIssuer, world.ACS, world.SPSLO}
	for i := range vals {
		if c.Str[i] != 0 {
			vals[i] = c15Alphabet[c.Str[i]-1]
		}
	}
	sp.ServiceProviderIssuer, sp.AssertionConsumerServiceURL, sp.ServiceProviderSLOURL = vals[0], vals[1], vals[2]
	sp.SignAuthnRequests = c.SAR
	sp.SkipSignatureValidation = c.Skip
	sp.Clock = world.Clock(c15Clocks[c.Clock].T)
	sp.SPKeyStore = nil
	encField, encSetter := c13SlotKey["enc-field"], c13SlotKey["enc-setter"]
	if c.EncKey != "" {
		encField, encSetter = c.EncKey, c.EncKey
	}
	if k.EncField {
		sp.SPKeyStore = world.FieldKeyStore(encField, c.Custom)
	}
	if k.EncSetter {
		sp.SetSPKeyStore(world.SetterKeyStore(encSetter))
	}
	if k.SigField {
		sp.SPSigningKeyStore = world.FieldKeyStore(c13SlotKey["sig-field"], c.Custom)
	}
	if k.SigSetter {
		sp.SetSPSigningKeyStore(world.SetterKeyStore(c13SlotKey["sig-setter"]))
	}
	return sp, k, vals
}

// c19Exec judges the metadata of a fresh instance, and then once more the metadata produced
// after a caller has written all over an earlier result (every field, slice element and map
// entry, in place): what is published must come from the configuration, not from anything an
// earlier result shares with a later one.
func c19Exec(c c19Case) (keys []string, detail, class string) {
	keys, detail, class = c19ExecPass(c, false)
	if len(keys) == 0 {
		k2, d2, _ := c19ExecPass(c, true)
		for _, k := range k2 {
			keys = append(keys, strings.Replace(k, "C19/", "C19/after-an-earlier-result-was-modified/", 1))
		}
		if len(k2) > 0 {
			detail += " | after writing over an earlier result: " + d2
			class = "DIFFERS"
		}
	}
	return keys, detail, class
}

func c19ExecPass(c c19Case, afterScribble bool) (keys []string, detail, class string) {
	sp, k, vals := c19SP(c)
	var md *types.EntityDescriptor
	var err error
	h := c19Hours[c.Hours]
	if afterScribble {
		// the instance was first configured differently (other strings, flags and clock), produced
		// metadata in both variants - which its holder then wrote all over - and was reconfigured
		other := c
		other.SAR, other.Skip, other.Clock = !c.SAR, !c.Skip, (c.Clock+1)%len(c15Clocks)
		other.Str = []int{1 + (c.Str[0]+2)%5, 1 + (c.Str[1]+2)%5, 1 + (c.Str[2]+2)%5}
		used, _, _ := c19SP(other)
		fresh := sp
		sp = used
		defer func() { _ = fresh }()
		guard(func() {
			for _, slo := range []bool{false, true} {
				var m *types.EntityDescriptor
				if slo {
					m, _ = sp.MetadataWithSLO(h)
				} else {
					m, _ = sp.Metadata()
				}
				if m != nil {
					scribbleDeep(reflect.ValueOf(m), 0, map[uintptr]bool{})
				}
			}
		})
		copyConfig(sp, fresh)
	}
	if c.Before > 0 {
		guard(func() {
			if c.Before == 1 {
				sp.Metadata()
			} else {
				sp.MetadataWithSLO(c19Hours[c.Before-2])
			}
		})
	}
	p := guard(func() {
		if c.SLO {
			md, err = sp.MetadataWithSLO(h)
		} else {
			md, err = sp.Metadata()
		}
	})
	fn := "Metadata"
	if c.SLO {
		fn = fmt.Sprintf("MetadataWithSLO(%d)", h)
	}
	detail = fmt.Sprintf("%s keys={%s} SignAuthnRequests=%v Skip=%v strings=%q clock=%s | err=%v panic=%q", fn, k, c.SAR, c.Skip, vals, c15Clocks[c.Clock].Name, err, p)
	kp := "C19/"
	if p != "" {
		return []string{kp + "panic"}, detail, "panic"
	}
	if err != nil || md == nil || md.SPSSODescriptor == nil {
		return []string{kp + "error/keys=" + k.String()}, detail, "ERROR"
	}
	bad := func(key, f string, a ...interface{}) {
		keys = append(keys, kp+key)
		detail += " | " + fmt.Sprintf(f, a...)
	}
	d := md.SPSSODescriptor
	if md.EntityID != vals[0] {
		bad("entityID-differs", "entityID %q", md.EntityID)
	}
	if len(d.AssertionConsumerServices) != 1 || d.AssertionConsumerServices[0].Location != vals[1] || d.AssertionConsumerServices[0].Binding != saml2.BindingHttpPost {
		bad("assertion-consumer-service-differs", "%+v", d.AssertionConsumerServices)
	}
	if c.SLO {
		if len(d.SingleLogoutServices) != 1 || d.SingleLogoutServices[0].Location != vals[2] || d.SingleLogoutServices[0].Binding != saml2.BindingHttpPost {
			bad("single-logout-service-differs", "%+v", d.SingleLogoutServices)
		}
	} else if len(d.SingleLogoutServices) != 0 {
		bad("unexpected-single-logout-service", "%+v", d.SingleLogoutServices)
	}
	if d.AuthnRequestsSigned != c.SAR {
		bad("AuthnRequestsSigned-differs", "AuthnRequestsSigned=%v", d.AuthnRequestsSigned)
	}
	if d.WantAssertionsSigned != !c.Skip {
		bad("WantAssertionsSigned-differs", "WantAssertionsSigned=%v", d.WantAssertionsSigned)
	}
	if d.ProtocolSupportEnumeration != idp.NSP {
		bad("protocolSupportEnumeration-differs", "%q", d.ProtocolSupportEnumeration)
	}
	// validity
	now := c15Clocks[c.Clock].T
	want := now.Add(7 * 24 * time.Hour)
	if c.SLO && h > 0 {
		want = now.Add(time.Duration(h) * time.Hour)
	}
	if !md.ValidUntil.Equal(want) {
		cls := "default"
		if c.SLO && h > 0 {
			cls = "requested-hours"
		}
		bad("validUntil-differs/"+cls, "validUntil %s, want %s", md.ValidUntil.Format(time.RFC3339Nano), want.UTC().Format(time.RFC3339Nano))
	}
	// key descriptors
	var signing, encryption []string
	var methods []string
	for _, kd := range d.KeyDescriptors {
		var certs []string
		for _, x := range kd.KeyInfo.X509Data.X509Certificates {
			certs = append(certs, x.Data)
		}
		switch kd.Use {
		case "signing":
			signing = append(signing, certs...)
		case "encryption":
			encryption = append(encryption, certs...)
			for _, m := range kd.EncryptionMethods {
				methods = append(methods, m.Algorithm)
			}
		default:
			bad("key-descriptor-with-unknown-use", "use=%q", kd.Use)
		}
	}
	signKey := k.expectedSigner()
	encKey := c13SlotKey["enc-field"]
	if k.EncSetter {
		encKey = c13SlotKey["enc-setter"]
	}
	if c.EncKey != "" {
		encKey = c.EncKey
		if !k.SigField && !k.SigSetter {
			signKey = c.EncKey // no signing key of its own: the encryption key signs
		}
	}
	expSign := base64.StdEncoding.EncodeToString(world.Cert(signKey).Raw)
	expEnc := base64.StdEncoding.EncodeToString(world.Cert(encKey).Raw)
	if len(signing) != 1 || signing[0] != expSign {
		bad("signing-key-published-is-not-the-configured-one/keys="+k.String(), "%d signing certificates", len(signing))
	}
	if len(encryption) != 1 || encryption[0] != expEnc {
		bad("encryption-key-published-is-not-the-configured-one/keys="+k.String(), "%d encryption certificates", len(encryption))
	}
	if c.Probe {
		// the signing certificate really verifies what this SP signs
		if len(signing) == 1 {
			if der, e := base64.StdEncoding.DecodeString(signing[0]); e == nil {
				if rc, e := x509.ParseCertificate(der); e == nil {
					sp2, _, _ := c19SP(c)
					sp2.SignAuthnRequests = true
					if doc, e := sp2.BuildAuthRequestDocument(); e == nil {
						s, _ := doc.WriteToString()
						d2 := etree.NewDocument()
						d2.ReadFromString(s)
						ctx := dsig.NewDefaultValidationContext(&dsig.MemoryX509CertificateStore{Roots: []*x509.Certificate{rc}})
						ctx.Clock = world.Clock(world.T0)
						if _, verr := ctx.Validate(d2.Root()); verr != nil {
							bad("published-signing-key-does-not-verify-signed-requests/keys="+k.String(), "%v", verr)
						}
					}
				}
			}
		}
		// every listed encryption method can be decrypted with the published encryption certificate's key
		for _, m := range methods {
			known := false
			for _, a := range idp.AllDataAlgs {
				if a == m {
					known = true
				}
			}
			if !known {
				bad("lists-encryption-method-it-cannot-decrypt/"+m[strings.LastIndex(m, "#")+1:], "method %s", m)
				continue
			}
			if len(encryption) != 1 {
				continue
			}
			// find which harness key the published certificate belongs to
			toKey := ""
			for _, kn := range []string{"KS", "KX", "KG", "K1", "KM", "KL"} {
				if base64.StdEncoding.EncodeToString(world.Cert(kn).Raw) == encryption[0] {
					toKey = kn
				}
			}
			if toKey == "" {
				continue
			}
			// every length of the assertion modulo the cipher's block size
			for res := 1; res <= 16; res++ {
				r := idp.DefaultResponse(1)
				uniq(&r, "c19")
				r.Assertions[0].Sign = idp.SignSpec{Key: "K1"}
				r.Assertions[0].Encrypt = &idp.EncSpec{DataAlg: m, ToKey: toKey, PadResidue: res}
				sp3, _, _ := c19SP(c19Case{Keys: c.Keys, Str: make([]int, 3), EncKey: c.EncKey, Custom: c.Custom})
				sp3.IDPCertificateStore = world.Store("K1")
				resp, cr := validateResponse(sp3, idp.RenderResponse(r))
				if !cr.Accepted() || len(resp.Assertions) != 1 {
					bad("cannot-decrypt-what-is-encrypted-to-the-published-key/keys="+k.String(), "method %s, plaintext length = %d mod 16: %s %s", m, res-1, cr.Err.Text, cr.Panic)
					break
				} else if oracle.FromAssertion(&resp.Assertions[0]).NameID != r.Assertions[0].NameID {
					bad("decrypted-data-differs", "")
					break
				}
			}
		}
		if len(methods) != 5 {
			bad("advertised-method-list-differs", "methods %v", methods)
		}
	}
	// XML: well-formed, round-trips
	b, merr := xml.Marshal(md)
	if merr != nil {
		bad("metadata-does-not-marshal", "%v", merr)
	} else {
		root, perr := recipient.Parse(b)
		if perr != nil {
			bad("metadata-xml-not-well-formed", "%v", perr)
		} else if root.Local != "EntityDescriptor" || root.NS != "urn:oasis:names:tc:SAML:2.0:metadata" {
			bad("metadata-root-differs", "{%s}%s", root.NS, root.Local)
		}
		var back types.EntityDescriptor
		if uerr := xml.Unmarshal(b, &back); uerr != nil {
			bad("metadata-xml-does-not-parse-back", "%v", uerr)
		} else {
			b2, _ := xml.Marshal(&back)
			if !bytes.Equal(b, b2) || back.EntityID != md.EntityID || !back.ValidUntil.Equal(md.ValidUntil) {
				cls := ""
				for _, v := range vals {
					if strings.Contains(v, "\r") {
						cls = "/carriage-return"
					}
				}
				bad("metadata-xml-round-trip-differs"+cls, "entityID %q -> %q", md.EntityID, back.EntityID)
			}
		}
	}
	// a second call on the SAME instance after the clock moved: validUntil must follow
	{
		later := c15Clocks[c.Clock].T.Add(36 * time.Hour)
		sp.Clock = world.Clock(later)
		var md2 *types.EntityDescriptor
		var err2 error
		p2 := guard(func() {
			if c.SLO {
				md2, err2 = sp.MetadataWithSLO(h)
			} else {
				md2, err2 = sp.Metadata()
			}
		})
		want2 := later.Add(7 * 24 * time.Hour)
		if c.SLO && h > 0 {
			want2 = later.Add(time.Duration(h) * time.Hour)
		}
		switch {
		case p2 != "" || err2 != nil || md2 == nil:
			bad("second-call-on-same-instance/error-or-panic", "%v %s", err2, p2)
		case !md2.ValidUntil.Equal(want2):
			bad("second-call-on-same-instance/validUntil-does-not-follow-the-clock", "validUntil %s want %s", md2.ValidUntil.Format(time.RFC3339), want2.UTC().Format(time.RFC3339))
		case md2 == md:
			bad("second-call-on-same-instance/same-object-returned", "")
		}
	}
	// the operator replaces the (field) encryption key store on the SAME instance: the metadata
	// produced afterwards must publish the new encryption certificate (the one decryption will
	// use). Only the encryption descriptor is compared: the signing context is cached by design.
	if k.EncField && !k.EncSetter {
		sp.SPKeyStore = world.TLSKeyStore("K2")
		var md3 *types.EntityDescriptor
		p3 := guard(func() {
			if c.SLO {
				md3, _ = sp.MetadataWithSLO(h)
			} else {
				md3, _ = sp.Metadata()
			}
		})
		wantEnc := base64.StdEncoding.EncodeToString(world.Cert("K2").Raw)
		gotEnc := ""
		if md3 != nil && md3.SPSSODescriptor != nil {
			for _, kd := range md3.SPSSODescriptor.KeyDescriptors {
				if kd.Use == "encryption" && len(kd.KeyInfo.X509Data.X509Certificates) > 0 {
					gotEnc = kd.KeyInfo.X509Data.X509Certificates[0].Data
				}
			}
		}
		if p3 != "" || gotEnc != wantEnc {
			bad("after-replacing-the-encryption-key-store/metadata-publishes-a-stale-encryption-certificate", "panic=%q", p3)
		}
	}
	if len(keys) > 0 {
		return dedupe(keys), detail, "DIFFERS"
	}
	return nil, detail, "matches/" + map[bool]string{true: "slo", false: "plain"}[c.SLO]
}

func c19Replay(raw json.RawMessage) ([]string, string) {
	var c c19Case
	if err := json.Unmarshal(raw, &c); err != nil {
		return nil, err.Error()
	}
	k, d, _ := c19Exec(c)
	return k, d
}

func c19Run(r *mc.Run) {
	r.Rule = "full product key configuration(12 with an encryption key) x SignAuthnRequests x SkipSignatureValidation x {Metadata, MetadataWithSLO(h) for h in -5,0,1,24,168,8760,10^6} x clock(5), with signing/decryption cross-checks (a signed AuthnRequest of the same SP verifies with the published signing certificate; an assertion encrypted to the published encryption certificate under each listed method, at every plaintext length modulo 16, is decrypted by the same SP) on the key-configuration dimension (field key stores as dsig.TLSCertKeyStore and as a key store of a custom type; SP encryption keys of RSA-2048, and per key configuration RSA-3072 and RSA-4096), plus every ordered pair of metadata calls (Metadata, MetadataWithSLO(h) for the 7 values of h) on one instance with the second one judged, plus <=1 (quick) / <=2 (thorough) special strings among issuer / ACS URL / SLO URL; each case judged on a fresh instance and again after a caller wrote over every field, slice element and map entry of earlier results; XML marshal is parsed by encoding/xml and must unmarshal back to equal values. non-trivial = metadata was produced and compared; distinct = distinct case"
	var cases []c19Case
	nk := len(c19Keys())
	mc.Enumerate(-1, r.Expired, func(ch *mc.Chooser) {
		c := c19Case{Str: make([]int, 3)}
		c.Keys = ch.Choose("keys", nk)
		c.SAR = ch.Bool("sar")
		c.Skip = ch.Bool("skip")
		c.SLO = ch.Bool("slo")
		if c.SLO {
			c.Hours = ch.Choose("hours", len(c19Hours))
		}
		c.Clock = ch.Choose("clock", len(c15Clocks))
		c.Probe = c.Clock == 0 && !c.Skip && (!c.SLO || c.Hours == 0)
		cases = append(cases, c)
		if kk := c19Keys()[c.Keys]; c.Probe && (kk.EncField || kk.SigField) {
			c.Custom = true
			cases = append(cases, c)
		}
	})
	// every ordered pair of metadata calls on one instance: the second is the one judged
	for before := 1; before <= len(c19Hours)+1; before++ {
		cases = append(cases, c19Case{Str: make([]int, 3), Keys: 1, Before: before})
		for hi := range c19Hours {
			cases = append(cases, c19Case{Str: make([]int, 3), Keys: 1, SLO: true, Hours: hi, Before: before})
		}
	}
	// larger SP encryption keys (the transported key grows with the modulus)
	for ki := 0; ki < nk; ki++ {
		for _, ek := range []string{"KM", "KL"} {
			for _, slo := range []bool{false, true} {
				cases = append(cases, c19Case{Str: make([]int, 3), Keys: ki, SLO: slo, Probe: true, EncKey: ek})
			}
		}
	}
	bound := 1
	if r.Thorough() {
		bound = 2
	}
	for _, slo := range []bool{false, true} {
		slo := slo
		mc.Enumerate(bound, r.Expired, func(ch *mc.Chooser) {
			c := c19Case{Str: make([]int, 3), SLO: slo}
			for i := 0; i < 3; i++ {
				c.Str[i] = ch.Choose([]string{"issuer", "acs", "slo"}[i], len(c15Alphabet)+1)
			}
			cases = append(cases, c)
		})
	}
	r.State(len(cases))
	r.Par(len(cases), func(i int) {
		c := cases[i]
		keys, detail, class := c19Exec(c)
		r.Eval(1)
		r.Transition(1)
		r.Bucket(class)
		if class != "ERROR" && class != "panic" {
			r.Nontrivial(fmt.Sprintf("%+v", c))
		}
		if i%401 == 0 {
			r.Sample(map[string]interface{}{"case": c, "observed": detail[:min(len(detail), 400)]})
		}
		for _, k := range keys {
			r.Violation(k, detail[:min(len(detail), 1500)], c)
		}
	})
}

func init() {
	register("C19", &check{run: c19Run, replay: c19Replay, quick: 300 * time.Second, thor: 900 * time.Second})
}
