package main

import (
	"bytes"
	"compress/flate"
	"encoding/base64"
	"encoding/json"
	"fmt"
	"io"
	"runtime"
	"strings"
	"sync"
	"time"

	saml2 "github.com/russellhaering/gosaml2"

	"verif/idp"
	"verif/mc"
	"verif/oracle"
	"verif/world"
)

// C12 — decompression is bounded by the configured limit and otherwise transparent.

const c12Default = 5 * 1024 * 1024

var c12Limits = []int64{0, 1, 64, 2048, 65536, c12Default}
var c12Levels = []int{flate.NoCompression, flate.BestSpeed, flate.DefaultCompression, flate.BestCompression, flate.HuffmanOnly}
var c12Entries = []string{"ValidateEncodedResponse", "RetrieveAssertionInfo", "ValidateEncodedLogoutRequestPOST", "ValidateEncodedLogoutResponsePOST", "DecodeUnverifiedBaseResponse", "DecodeUnverifiedLogoutResponse"}

type c12Case struct {
	Limit int64 `json:"limit"`
	Size  int64 `json:"size"` // inflated size
	Level int   `json:"level"`
	Entry int   `json:"entry"`
	Bomb  bool  `json:"bomb,omitempty"`
	// Text: 0 = the document is pure ASCII; 1 / 2 = it carries two-byte / four-byte UTF-8
	// characters (sizes and limits count bytes, not characters)
	Text int `json:"non_ascii,omitempty"`
	// PreDecoded: the very same input is first given to the unverified decoder of its kind (as a
	// multi-IdP deployment does to pick the configuration), then to the entry point
	PreDecoded bool `json:"pre_decoded_first,omitempty"`
}

var c12Texts = []string{"", "<!--Universit\u00e4t \u00e9\u00e9\u00e9-->", "<!--\U0001F600\U0001F600\U0001F600 \u65e5\u672c-->"}

func c12Effective(limit int64, entry int) int64 {
	if entry >= 4 || limit == 0 {
		return c12Default
	}
	return limit
}

var (
	c12Mu   sync.Mutex
	c12Docs = map[string][]byte{}
	c12Comp = map[string]string{}
)

// c12Doc returns a well-formed document of exactly n bytes for the entry point's kind: a
// genuine signed message padded with trailing whitespace when it fits, else the smallest
// well-formed document padded likewise; nil when n < 4 (no well-formed document exists).
func c12Doc(entry int, n int64, text ...int) []byte {
	kind := []string{"Response", "Response", "LogoutRequest", "LogoutResponse", "Response", "LogoutResponse"}[entry]
	id := fmt.Sprintf("%s/%d", kind, n)
	tx := 0
	if len(text) > 0 && text[0] != 0 {
		// the same documents followed by a comment holding multi-byte characters
		tx = text[0]
		id += fmt.Sprintf("/text=%d", tx)
	}
	c12Mu.Lock()
	defer c12Mu.Unlock()
	if d, ok := c12Docs[id]; ok {
		return d
	}
	baseID := "base/" + kind
	base, ok := c12Docs[baseID]
	if !ok {
		if kind == "Response" {
			r := idp.DefaultResponse(1)
			r.Sign = idp.SignSpec{Key: "K3"}
			base = idp.Bytes(idp.BuildResponse(r), idp.Layout{})
		} else {
			l := idp.DefaultLogout(kind)
			l.Sign = idp.SignSpec{Key: "K3"}
			base = idp.Bytes(idp.BuildLogout(l), idp.Layout{})
		}
		c12Docs[baseID] = base
	}
	var d []byte
	tail := c12Texts[tx]
	switch {
	case n < 4:
		d = nil
	case n >= int64(len(base)+len(tail)):
		d = append(append(append([]byte{}, base...), tail...), bytes.Repeat([]byte{' '}, int(n)-len(base)-len(tail))...)
	case n >= int64(4+len(tail)):
		d = []byte("<a/>" + tail + strings.Repeat(" ", int(n)-4-len(tail)))
	default:
		d = []byte("<a" + strings.Repeat(" ", int(n)-4) + "/>")
	}
	if n <= 1<<20 {
		c12Docs[id] = d
	}
	return d
}

type spaceReader struct{ left int64 }

func (s *spaceReader) Read(p []byte) (int, error) {
	if s.left <= 0 {
		return 0, io.EOF
	}
	n := int64(len(p))
	if n > s.left {
		n = s.left
	}
	for i := int64(0); i < n; i++ {
		p[i] = ' '
	}
	s.left -= n
	return int(n), nil
}

// c12Compress deflates prefix followed by pad spaces, streaming (never materialising the
// expansion), and returns the base64 form.
func c12Compress(prefix []byte, total int64, level int) string {
	var buf bytes.Buffer
	w, _ := flate.NewWriter(&buf, level)
	w.Write(prefix)
	io.Copy(w, &spaceReader{left: total - int64(len(prefix))})
	w.Close()
	return base64.StdEncoding.EncodeToString(buf.Bytes())
}

func c12Input(c c12Case) (compressed string, raw string, wellFormed bool) {
	id := fmt.Sprintf("%d/%d/%d/%v/%d", c.Entry, c.Size, c.Level, c.Bomb, c.Text)
	if c.Bomb {
		id = fmt.Sprintf("bomb/%d/%d", c.Size, c.Level)
	}
	c12Mu.Lock()
	if v, ok := c12Comp[id]; ok {
		c12Mu.Unlock()
		return v, "", false
	}
	c12Mu.Unlock()
	if c.Bomb {
		s := c12Compress([]byte("<a>"), c.Size, c.Level)
		c12Mu.Lock()
		c12Comp[id] = s
		c12Mu.Unlock()
		return s, "", false
	}
	d := c12Doc(c.Entry, c.Size, c.Text)
	if d == nil {
		d = bytes.Repeat([]byte{' '}, int(c.Size))
		return base64.StdEncoding.EncodeToString(idp.Deflate(d, c.Level)), "", false
	}
	return base64.StdEncoding.EncodeToString(idp.Deflate(d, c.Level)), base64.StdEncoding.EncodeToString(d), true
}

type c12Out struct {
	Accepted bool
	Err      errInfo
	Data     string
	Panic    string
}

func c12Call(entry int, limit int64, in string) c12Out {
	conf := world.SPConf{Store: []string{"K3"}, MaxSize: limit}
	sp := conf.Build()
	var o c12Out
	switch entry {
	case 0:
		resp, r := validateResponse(sp, in)
		o = c12Out{Accepted: r.Accepted(), Err: r.Err, Panic: r.Panic}
		if r.Accepted() {
			o.Data = oracle.FromResponse(resp).Key()
		}
	case 1:
		info, r := retrieveInfo(sp, in)
		o = c12Out{Accepted: r.Accepted(), Err: r.Err, Panic: r.Panic}
		if r.Accepted() {
			o.Data = info.NameID + "|" + info.SessionIndex + "|" + fmt.Sprint(len(info.Assertions))
		}
	case 2:
		res, r := validateLogoutRequest(sp, in)
		o = c12Out{Accepted: r.Accepted(), Err: r.Err, Panic: r.Panic}
		if r.Accepted() {
			o.Data = fmt.Sprintf("%s|%v|%s", res.ID, res.SignatureValidated, res.Destination)
		}
	case 3:
		res, r := validateLogoutResponse(sp, in)
		o = c12Out{Accepted: r.Accepted(), Err: r.Err, Panic: r.Panic}
		if r.Accepted() {
			o.Data = fmt.Sprintf("%s|%v|%s", res.ID, res.SignatureValidated, res.InResponseTo)
		}
	case 4:
		var err error
		var u interface{}
		p := guard(func() {
			x, e := saml2.DecodeUnverifiedBaseResponse(in)
			err = e
			if x != nil {
				u = x
				o.Data = x.ID + "|" + x.Destination
			}
		})
		o.Accepted, o.Err, o.Panic = err == nil && u != nil, describeErr(err), p
	case 5:
		var err error
		var u interface{}
		p := guard(func() {
			x, e := saml2.DecodeUnverifiedLogoutResponse(in)
			err = e
			if x != nil {
				u = x
				o.Data = x.ID + "|" + x.Destination
			}
		})
		o.Accepted, o.Err, o.Panic = err == nil && u != nil, describeErr(err), p
	}
	return o
}

func c12Exec(c c12Case, measure bool) (keys []string, detail, class string) {
	eff := c12Effective(c.Limit, c.Entry)
	comp, raw, wf := c12Input(c)
	var m0, m1 runtime.MemStats
	if measure {
		runtime.GC()
		runtime.ReadMemStats(&m0)
	}
	if c.PreDecoded {
		guard(func() {
			saml2.DecodeUnverifiedBaseResponse(comp)
			saml2.DecodeUnverifiedLogoutResponse(comp)
		})
	}
	o := c12Call(c.Entry, c.Limit, comp)
	if measure {
		runtime.ReadMemStats(&m1)
	}
	kp := fmt.Sprintf("C12/%s/", c12Entries[c.Entry])
	lim := fmt.Sprintf("limit=%d", c.Limit)
	if c.Limit == 0 {
		lim = "limit=unset"
	}
	detail = fmt.Sprintf("case=%+v effective_limit=%d compressed_b64_len=%d | accepted=%v err=%q panic=%q", c, eff, len(comp), o.Accepted, o.Err.Text, o.Panic)
	if o.Panic != "" {
		return []string{kp + "panic"}, detail, "panic"
	}
	if c.Size > eff {
		if o.Accepted {
			return []string{kp + "oversize-expansion-accepted/" + lim}, detail, "oversize/ACCEPTED"
		}
		// the statement asks only for an error; but the outcome may not depend on what lies beyond
		// limit+1 bytes of the expansion (that would mean it was materialised and looked at): the
		// same stream with everything after that point replaced by garbage must fare the same
		if d := c12Doc(c.Entry, c.Size, c.Text); !c.Bomb && d != nil && c.Size > eff+1 && c.Size <= 64<<20 {
			twin := append([]byte{}, d...)
			for i := eff + 1; i < int64(len(twin)); i++ {
				twin[i] = 'x'
			}
			to := c12Call(c.Entry, c.Limit, base64.StdEncoding.EncodeToString(idp.Deflate(twin, c.Level)))
			detail += fmt.Sprintf(" | same stream with garbage after limit+1 bytes: accepted=%v err=%q panic=%q", to.Accepted, to.Err.Text, to.Panic)
			if to.Panic != "" {
				return []string{kp + "panic"}, detail, "panic"
			}
			if to.Accepted != o.Accepted || to.Err.Type != o.Err.Type || to.Err.Text != o.Err.Text {
				return []string{kp + "oversize-expansion-was-parsed/" + lim}, detail, "oversize/PARSED"
			}
		}
		if measure {
			alloc := int64(m1.TotalAlloc - m0.TotalAlloc)
			bound := 8*eff + 8*int64(len(comp)) + 4<<20
			detail += fmt.Sprintf(" | allocated=%d bound=%d", alloc, bound)
			if alloc > bound {
				return []string{kp + "oversize-expansion-materialised/" + lim}, detail, "oversize/ALLOC"
			}
			return nil, detail, "oversize/rejected/alloc-bounded"
		}
		return nil, detail, "oversize/rejected"
	}
	if !wf {
		return nil, detail, "within-limit/not-well-formed(no requirement)"
	}
	ro := c12Call(c.Entry, c.Limit, raw)
	detail += fmt.Sprintf(" | raw presentation: accepted=%v err=%q", ro.Accepted, ro.Err.Text)
	if o.Accepted != ro.Accepted {
		return []string{fmt.Sprintf("%scompressed-differs-from-raw/accepted=%v-raw=%v/%s", kp, o.Accepted, ro.Accepted, lim)}, detail, "within-limit/DIFFERS"
	}
	if o.Data != ro.Data {
		return []string{kp + "compressed-data-differs-from-raw"}, detail, "within-limit/DIFFERS"
	}
	if o.Err.Type != ro.Err.Type || o.Err.Key != ro.Err.Key || o.Err.Text != ro.Err.Text {
		return []string{kp + "compressed-error-differs-from-raw"}, detail, "within-limit/DIFFERS"
	}
	if o.Accepted {
		return nil, detail, "within-limit/equal/accepted"
	}
	return nil, detail, "within-limit/equal/rejected"
}

// ---------- compressed plaintext inside an EncryptedAssertion ----------

type c12EncCase struct {
	EncLimit int64 `json:"enc_limit"` // configured limit
	EncSize  int64 `json:"enc_size"`  // inflated size of the decrypted plaintext
	Level    int   `json:"level"`
}

func c12EncMsg(size int64, level int, compressed bool) string {
	r := idp.DefaultResponse(1)
	r.Assertions[0].Sign = idp.SignSpec{Key: "K3"}
	doc := idp.BuildResponse(r)
	as := oracle.Children(doc.Root(), oracle.NSA, "Assertion")[0]
	pt := idp.StandaloneBytes(as)
	if int64(len(pt)) < size {
		pt = append(pt, bytes.Repeat([]byte{' '}, int(size)-len(pt))...)
	}
	if compressed {
		pt = idp.Deflate(pt, c12Levels[level])
	}
	ea := idp.EncryptPlaintext(pt, idp.EncSpec{})
	idx := as.Index()
	doc.Root().RemoveChildAt(idx)
	doc.Root().InsertChildAt(idx, ea)
	return idp.Encode(idp.Bytes(doc, idp.Layout{}), false)
}

func c12EncExec(c c12EncCase) (keys []string, detail, class string) {
	eff := c.EncLimit
	if eff == 0 {
		eff = c12Default
	}
	o := c12Call(0, c.EncLimit, c12EncMsg(c.EncSize, c.Level, true))
	detail = fmt.Sprintf("EncryptedAssertion whose plaintext is DEFLATE-compressed: %+v effective_limit=%d | accepted=%v err=%q panic=%q", c, eff, o.Accepted, o.Err.Text, o.Panic)
	lim := fmt.Sprintf("limit=%d", c.EncLimit)
	if c.EncLimit == 0 {
		lim = "limit=unset"
	}
	if o.Panic != "" {
		return []string{"C12/decrypted-plaintext/panic"}, detail, "panic"
	}
	if c.EncSize > eff {
		if o.Accepted {
			return []string{"C12/decrypted-plaintext/oversize-expansion-accepted/" + lim}, detail, "enc/oversize/ACCEPTED"
		}
		return nil, detail, "enc/oversize/rejected"
	}
	t := c12Call(0, c.EncLimit, c12EncMsg(c.EncSize, c.Level, false))
	detail += fmt.Sprintf(" | uncompressed plaintext twin: accepted=%v err=%q", t.Accepted, t.Err.Text)
	if o.Accepted != t.Accepted || o.Data != t.Data {
		return []string{fmt.Sprintf("C12/decrypted-plaintext/compressed-differs-from-raw/accepted=%v-raw=%v/%s", o.Accepted, t.Accepted, lim)}, detail, "enc/within/DIFFERS"
	}
	return nil, detail, "enc/within/equal"
}

// ---- framings: DEFLATE streams whose first bytes look like something else ----

// c12Framing: the document in hand-framed stored blocks. The five bits after the 3-bit header of
// a stored block are padding a decoder must ignore, so the first byte of a valid stream can be a
// space (0x20: non-final stored block) or a tab (0x09: final stored block), and the block length
// that follows can be 60 = '<': a stream that "looks like" whitespace followed by a tag.
type c12Framing struct {
	Framing bool `json:"framing"`
	Entry   int  `json:"entry"`
	Shape   int  `json:"shape"` // 0 plain stored blocks, 1 first byte 0x20 + 60-byte first block, 2 first byte 0x09 + single block whose length ends in 0x3c
}

func c12StoredBlock(final bool, pad byte, b []byte) []byte {
	h := pad &^ 7
	if final {
		h |= 1
	}
	out := []byte{h, byte(len(b)), byte(len(b) >> 8), ^byte(len(b)), ^byte(len(b) >> 8)}
	return append(out, b...)
}

func c12FramingInputs(c c12Framing) (compressed, raw string) {
	d := c12Doc(c.Entry, 9020) // 9020 = 35*256 + 60
	var st []byte
	switch c.Shape {
	case 0:
		st = append(c12StoredBlock(false, 0, d[:60]), c12StoredBlock(true, 0, d[60:])...)
	case 1:
		st = append(c12StoredBlock(false, 0x20, d[:60]), c12StoredBlock(true, 0, d[60:])...)
	case 2:
		st = c12StoredBlock(true, 0x08, d)
	}
	return base64.StdEncoding.EncodeToString(st), base64.StdEncoding.EncodeToString(d)
}

func c12FramingExec(c c12Framing) (keys []string, detail, class string) {
	comp, raw := c12FramingInputs(c)
	o, ro := c12Call(c.Entry, 0, comp), c12Call(c.Entry, 0, raw)
	detail = fmt.Sprintf("case=%+v | compressed: accepted=%v err=%q panic=%q | raw: accepted=%v err=%q", c, o.Accepted, o.Err.Text, o.Panic, ro.Accepted, ro.Err.Text)
	if o.Panic != "" {
		return []string{"C12/" + c12Entries[c.Entry] + "/panic"}, detail, "panic"
	}
	if o.Accepted != ro.Accepted || o.Data != ro.Data {
		return []string{fmt.Sprintf("C12/%s/compressed-differs-from-raw/accepted=%v-raw=%v/stored-block-framing", c12Entries[c.Entry], o.Accepted, ro.Accepted)}, detail, "framing/DIFFERS"
	}
	return nil, detail, "framing/same"
}

// ---- sequences: a message after a stream that failed part-way ----

// c12Seq: entry point e is first given a DEFLATE stream that yields some output and then ends
// without a final block (rejected), then an ordinary compressed message. The second outcome must
// be what the same message gets in a process that has seen nothing else (package-level state
// such as a recycled buffer is shared by all instances, so a fresh instance cannot vouch).
type c12Seq struct {
	Seq   bool `json:"sequence"`
	Entry int  `json:"entry"`
	Level int  `json:"level"`
	Stale int  `json:"stale"` // which unfinished stream came first
}

var c12Stale = []string{"<a>stale</a>", "<!-- stale -->", "   ", "<samlp:Response xmlns:samlp=\"urn:oasis:names:tc:SAML:2.0:protocol\" ID=\"_stale\" Version=\"2.0\"/>"}

func c12SeqInputs(c c12Seq) (bad, good string) {
	var buf bytes.Buffer
	w, _ := flate.NewWriter(&buf, flate.BestSpeed)
	w.Write([]byte(c12Stale[c.Stale]))
	w.Flush() // no Close: the stream has no final block
	bad = base64.StdEncoding.EncodeToString(buf.Bytes())
	d := c12Doc(c.Entry, 9000)
	good = base64.StdEncoding.EncodeToString(idp.Deflate(d, c12Levels[c.Level]))
	return bad, good
}

var (
	c12RefMu sync.Mutex
	c12Refs  = map[string]c12Out{}
)

// c12SeqRef is the outcome of the good message alone; c12Run takes all of them before anything
// else has been decoded in the process, a replay before its own sequence.
func c12SeqRef(c c12Seq) c12Out {
	k := fmt.Sprintf("%d/%d", c.Entry, c.Level)
	c12RefMu.Lock()
	defer c12RefMu.Unlock()
	if o, ok := c12Refs[k]; ok {
		return o
	}
	_, good := c12SeqInputs(c)
	o := c12Call(c.Entry, 0, good)
	c12Refs[k] = o
	return o
}

func c12SeqExec(c c12Seq) (keys []string, detail, class string) {
	ref := c12SeqRef(c)
	bad, good := c12SeqInputs(c)
	o1 := c12Call(c.Entry, 0, bad)
	o2 := c12Call(c.Entry, 0, good)
	detail = fmt.Sprintf("case=%+v | unfinished stream: accepted=%v err=%q | message after it: accepted=%v err=%q data=%q | the same message alone: accepted=%v err=%q data=%q", c, o1.Accepted, o1.Err.Text, o2.Accepted, o2.Err.Text, o2.Data, ref.Accepted, ref.Err.Text, ref.Data)
	if o1.Panic != "" || o2.Panic != "" {
		return []string{"C12/" + c12Entries[c.Entry] + "/panic"}, detail, "panic"
	}
	if o2 != ref {
		return []string{"C12/" + c12Entries[c.Entry] + "/compressed-message-after-a-failed-stream-differs"}, detail, "sequence/DIFFERS"
	}
	return nil, detail, "sequence/same"
}

func c12Replay(raw json.RawMessage) ([]string, string) {
	var fr c12Framing
	if json.Unmarshal(raw, &fr) == nil && fr.Framing {
		k, d, _ := c12FramingExec(fr)
		return k, d
	}
	var sq c12Seq
	if json.Unmarshal(raw, &sq) == nil && sq.Seq {
		k, d, _ := c12SeqExec(sq)
		return k, d
	}
	var ec c12EncCase
	if json.Unmarshal(raw, &ec) == nil && ec.EncSize > 0 {
		k, d, _ := c12EncExec(ec)
		return k, d
	}
	var c c12Case
	if err := json.Unmarshal(raw, &c); err != nil {
		return nil, err.Error()
	}
	k, d, _ := c12Exec(c, c.Bomb)
	return k, d
}

func c12Run(r *mc.Run) {
	bomb := int64(256 << 20)
	if r.Thorough() {
		bomb = 2 << 30
	}
	r.Rule = "configured limit(6: unset, 1, 64, 2048, 65536, 5 MiB) x inflated size around the effective limit (L-1, L, L+1, 2L, 64L) x flate level(5: stored, 1, 6, 9, Huffman-only) x 6 entry points (the unverified decoders always at 5 MiB), documents = a genuine signed message (or the smallest well-formed document) padded with whitespace to the exact size, also with a trailing comment of two-byte / four-byte UTF-8 characters (limits count bytes) for 4 limits x sizes L-1..L+2, 2L x 2 levels; the same input given to the unverified decoders first, 3 limits x 4 entry points x 5 sizes x 2 levels; plus a streamed expansion bomb (256 MiB quick / 2 GiB thorough, ~1000:1) per limit x entry point x level with TotalAlloc measured around the call (sequential phase). Oracle: size > limit => error, and the same outcome (acceptance, error type and text) when everything after limit+1 bytes of the expansion is replaced by garbage (no wording is assumed); size <= limit => identical outcome, data and error to the same bytes presented uncompressed; the same for a DEFLATE-compressed plaintext inside an EncryptedAssertion (3 limits x 4 sizes x 2 levels); plus hand-framed stored-block streams whose first bytes read as whitespace followed by '<' (padding bits of the block header, a 60-byte block length) against the raw presentation; plus sequences per entry point x level x 4 unfinished streams: a DEFLATE stream that yields output and then ends without a final block, followed by an ordinary compressed message, whose outcome must equal the outcome of that message alone taken at process start. non-trivial = the input reached the inflater (raw parse failed); distinct = distinct case"
	r.Assume("runtime.MemStats.TotalAlloc deltas measured in a sequential phase with no other goroutine allocating")
	// sequences: the references first, while the process has decoded nothing else
	var seqs []c12Seq
	for e := range c12Entries {
		for _, li := range []int{1, 2} {
			for st := range c12Stale {
				seqs = append(seqs, c12Seq{Seq: true, Entry: e, Level: li, Stale: st})
			}
		}
	}
	for _, sq := range seqs {
		c12SeqRef(sq)
	}
	for e := range c12Entries {
		for shape := 0; shape < 3; shape++ {
			fr := c12Framing{Framing: true, Entry: e, Shape: shape}
			keys, detail, class := c12FramingExec(fr)
			r.Eval(2)
			r.State(1)
			r.Transition(2)
			r.Bucket(class)
			r.Nontrivial(fmt.Sprintf("%+v", fr))
			for _, k := range keys {
				r.Violation(k, detail[:min(len(detail), 1500)], fr)
			}
		}
	}
	defer func() {
		for i, sq := range seqs {
			keys, detail, class := c12SeqExec(sq)
			r.Eval(2)
			r.State(1)
			r.Transition(2)
			r.Bucket(class)
			r.Nontrivial(fmt.Sprintf("%+v", sq))
			if i%17 == 0 {
				r.Sample(map[string]interface{}{"case": sq, "observed": detail[:min(len(detail), 500)]})
			}
			for _, k := range keys {
				r.Violation(k, detail[:min(len(detail), 1500)], sq)
			}
		}
	}()
	var cases []c12Case
	for _, L := range c12Limits {
		for e := range c12Entries {
			eff := c12Effective(L, e)
			sizes := []int64{eff - 1, eff, eff + 1, 2 * eff, 64 * eff}
			for _, sz := range sizes {
				for li := range c12Levels {
					if c12Levels[li] == flate.NoCompression && sz > 8<<20 {
						continue // a stored stream of that size is not a compression-ratio question
					}
					if sz > 64<<20 && !r.Thorough() && li != 1 && li != 3 {
						continue
					}
					cases = append(cases, c12Case{Limit: L, Size: sz, Level: li, Entry: e})
				}
			}
		}
	}
	// documents with multi-byte characters: bytes, not characters, are what is limited
	nText := 0
	for _, L := range []int64{64, 2048, 65536, c12Default} {
		for e := range c12Entries {
			eff := c12Effective(L, e)
			if e >= 4 && L != c12Default {
				continue
			}
			for _, sz := range []int64{eff - 1, eff, eff + 1, eff + 2, 2 * eff} {
				for _, li := range []int{1, 2} {
					for tx := 1; tx <= 2; tx++ {
						cases = append(cases, c12Case{Limit: L, Size: sz, Level: li, Entry: e, Text: tx})
						nText++
					}
				}
			}
		}
	}
	r.Set("non_ascii_cases", nText)
	// the pre-decoders (always at 5 MiB) are consulted first with the very same input
	nPre := 0
	for _, L := range []int64{64, 2048, 65536} {
		for e := 0; e < 4; e++ {
			for _, sz := range []int64{L - 1, L, L + 1, 2 * L, 64 * L} {
				for _, li := range []int{1, 2} {
					cases = append(cases, c12Case{Limit: L, Size: sz, Level: li, Entry: e, PreDecoded: true})
					nPre++
				}
			}
		}
	}
	r.Set("pre_decoded_first_cases", nPre)
	r.Set("cases", len(cases))
	r.State(len(cases))
	// big documents are memory-hungry: limit parallelism by running the large ones sequentially
	var small, large []c12Case
	for _, c := range cases {
		if c.Size >= 1<<20 {
			large = append(large, c)
		} else {
			small = append(small, c)
		}
	}
	judge := func(c c12Case, measure bool) {
		keys, detail, class := c12Exec(c, measure)
		r.Eval(1)
		r.Transition(1)
		r.Bucket(class)
		r.Nontrivial(fmt.Sprintf("%+v", c))
		for _, k := range keys {
			r.Violation(k, detail, c)
		}
	}
	r.Par(len(small), func(i int) { judge(small[i], false) })
	sem := make(chan struct{}, 4)
	var wg sync.WaitGroup
	for _, c := range large {
		if r.Expired() {
			r.Cap("deadline reached in the large-document phase")
			break
		}
		c := c
		wg.Add(1)
		sem <- struct{}{}
		go func() {
			defer wg.Done()
			judge(c, false)
			<-sem
		}()
	}
	wg.Wait()
	// compressed plaintext inside an EncryptedAssertion: the same limit governs it
	var encs []c12EncCase
	for _, L := range []int64{65536, 0, 8 << 20} {
		eff := L
		if eff == 0 {
			eff = c12Default
		}
		for _, sz := range []int64{eff - 1, eff, eff + 1, 2 * eff} {
			for _, li := range []int{1, 3} {
				encs = append(encs, c12EncCase{EncLimit: L, EncSize: sz, Level: li})
			}
		}
	}
	r.Set("encrypted_plaintext_cases", len(encs))
	semE := make(chan struct{}, 4)
	var wgE sync.WaitGroup
	for _, c := range encs {
		c := c
		wgE.Add(1)
		semE <- struct{}{}
		go func() {
			defer wgE.Done()
			keys, detail, class := c12EncExec(c)
			r.Eval(1)
			r.Transition(1)
			r.State(1)
			r.Bucket(class)
			r.Nontrivial(fmt.Sprintf("%+v", c))
			for _, k := range keys {
				r.Violation(k, detail, c)
			}
			<-semE
		}()
	}
	wgE.Wait()
	// bombs: sequential, with allocation measured
	n := 0
	for _, L := range c12Limits {
		for e := range c12Entries {
			for li := range c12Levels {
				if c12Levels[li] == flate.NoCompression {
					continue
				}
				if r.Expired() {
					r.Cap("deadline reached in the expansion-bomb phase")
					break
				}
				c := c12Case{Limit: L, Size: bomb, Level: li, Entry: e, Bomb: true}
				judge(c, true)
				n++
				if n%29 == 0 {
					_, d, _ := c12Exec(c, true)
					r.Sample(map[string]interface{}{"case": c, "observed": d})
				}
			}
		}
	}
	r.Set("bomb_cases", n)
	r.Set("bomb_inflated_bytes", bomb)
}

func init() {
	register("C12", &check{run: c12Run, replay: c12Replay, quick: 400 * time.Second, thor: 1800 * time.Second})
}
