package main

import (
	"encoding/json"
	"fmt"
	saml2 "github.com/russellhaering/gosaml2"
	"strings"
	"sync"
	"time"

	"verif/idp"
	"verif/mc"
	"verif/world"
)

// C02 — only trusted, currently valid certificates vouch; bad signatures are fatal.
//
// Full product (E-CHOICE, no deviation bound) of message kind × signer state × store ×
// clock position × presentation; oracle = reference model of "honoured" written from the
// statement.

type c02Signer struct {
	Name    string
	Key     string // signing key
	KeyInfo string // idp.SignSpec.KeyInfo
	Tamper  string
}

var c02Signers = []c02Signer{
	{"K1+C1", "K1", "", ""},
	{"K2+C2", "K2", "", ""},
	{"K3ecdsa+C3", "K3", "", ""},
	{"KA+CA", "KA", "", ""},
	{"KA+C1(trusted-cert-foreign-key)", "KA", "cert:K1", ""},
	{"K1+nokeyinfo", "K1", "none", ""},
	{"KA+nokeyinfo", "KA", "none", ""},
	{"K1+keyinfo-without-cert", "K1", "empty", ""},
	{"K1+undecodable-cert", "K1", "garbage", ""},
	{"K1+content-altered", "K1", "", "content"},
	{"K1+sigvalue-altered", "K1", "", "sigvalue"},
	{"K1+digest-altered", "K1", "", "digest"},
	// no KeyInfo, signed by the roll-over key: in a store of several certificates of which only
	// that key's is currently valid this is still a signature that names nobody
	{"K2+nokeyinfo", "K2", "none", ""},
}

var c02Stores = [][]string{{"K1"}, {}, {"K2"}, {"K1", "K2"}, {"K2", "K1"}, {"K1", "K2", "K3"}, {"KX"},
	// larger stores: the honoured certificate is the fifth / the last of seven
	{"KX", "KG", "KS", "KA", "K1"}, {"KX", "KG", "KS", "KA", "KE", "K2", "K1"}}

// clock positions relative to the certificate window [T0-1h, T0+1h]
var c02Clocks = []struct {
	Name string
	Off  time.Duration
	In   bool
}{
	{"mid", 0, true},
	{"NotBefore-1s", -time.Hour - time.Second, false},
	{"NotBefore", -time.Hour, true},
	{"NotBefore+1s", -time.Hour + time.Second, true},
	{"NotAfter-1s", time.Hour - time.Second, true},
	{"NotAfter", time.Hour, true},
	{"NotAfter+1s", time.Hour + time.Second, false},
	// K2's certificate has the wider window [T0-2h, T0+2h]
	{"K2.NotBefore-1s", -2*time.Hour - time.Second, false},
	{"K2.NotBefore", -2 * time.Hour, false},
	{"K2.NotAfter", 2 * time.Hour, false},
	{"K2.NotAfter+1s", 2*time.Hour + time.Second, false},
	// sub-second positions (certificate bounds have one-second resolution, the clock does not)
	{"NotBefore-1ns", -time.Hour - time.Nanosecond, false},
	{"NotAfter+1ns", time.Hour + time.Nanosecond, false},
	{"NotAfter+999ms", time.Hour + 999*time.Millisecond, false},
	{"K2.NotAfter+1ns", 2*time.Hour + time.Nanosecond, false},
}

// "both-signed": the Response carries the signer state under test and its assertion a genuine
// K2 signature (K2's certificate has a wider window than the others) (a bad Response signature must not be downgraded to "unsigned, assertion signed").
// "two-assertions": unsigned Response, first assertion under the signer state, second
// genuinely signed by K2 (a bad assertion signature must not be skipped).
// "response-good+assertion-state": the Response is genuinely signed by K2 and encloses an
// assertion whose OWN signature is under the signer state (the IdP signed the Response over
// it): acceptance follows the Response signature; the assertion must not be reported as
// individually validated unless its own signature is honoured.
var c02Kinds = []string{"response-signed", "assertion-signed", "LogoutRequest", "LogoutResponse", "both-signed", "two-assertions", "response-good+assertion-state"}

type c02Case struct {
	Kind    string       `json:"kind"`
	Signer  int          `json:"signer"`
	SName   string       `json:"signer_name"`
	Conf    world.SPConf `json:"sp"`
	Clock   string       `json:"clock"`
	Deflate bool         `json:"deflate"`
	// Nested: the message's own signature sits inside an Extensions child of the signed
	// element rather than directly under it (its Reference still names the element's ID)
	Nested bool `json:"nested_signature,omitempty"`
	// Wrapped: the base64 text of DigestValue, SignatureValue and X509Certificate starts on a new
	// line and is broken into 64-character lines, as most IdP implementations write it
	Wrapped bool `json:"wrapped_base64,omitempty"`
	// Indented (signatures that are not honoured anyway): as Wrapped, every line also indented
	// with spaces, so that the values are not plain base64 text; a signature that cannot be
	// read is a signature that is not honoured, never an absent one
	Indented bool `json:"indented_base64,omitempty"`
}

var c02Memo sync.Map

// c02Message renders (memoised) the message for a kind and signer. All message-level time
// bounds are wide so that only the certificate window matters.
func c02Message(kind string, si int, deflate bool, nested bool, wrapped bool, indented bool) string {
	id := fmt.Sprintf("%s/%d/%v/%v/%v/%v", kind, si, deflate, nested, wrapped, indented)
	if v, ok := c02Memo.Load(id); ok {
		return v.(string)
	}
	s := c02Signers[si]
	sign := idp.SignSpec{Key: s.Key, KeyInfo: s.KeyInfo, Tamper: s.Tamper, Wrap64: wrapped || indented, Indent: indented}
	if nested {
		sign.Nested = "Extensions"
	}
	wideA, wideB := idp.TS(world.T0.Add(-3*time.Hour)), idp.TS(world.T0.Add(3*time.Hour))
	var out string
	switch kind {
	case "response-signed", "assertion-signed", "both-signed", "two-assertions", "response-good+assertion-state":
		n := 1
		if kind == "two-assertions" {
			n = 2
		}
		r := idp.DefaultResponse(n)
		for i := range r.Assertions {
			r.Assertions[i].NotBefore, r.Assertions[i].NotOnOrAfter, r.Assertions[i].SCDNotOnOrAfter = wideA, wideB, wideB
		}
		switch kind {
		case "response-signed":
			r.Sign = sign
		case "assertion-signed":
			r.Assertions[0].Sign = sign
		case "both-signed":
			r.Sign = sign
			r.Assertions[0].Sign = idp.SignSpec{Key: "K2"}
		case "two-assertions":
			r.Assertions[0].Sign = sign
			r.Assertions[1].Sign = idp.SignSpec{Key: "K2"}
		case "response-good+assertion-state":
			r.Sign = idp.SignSpec{Key: "K2"}
			r.Assertions[0].Sign = sign
			r.Assertions[0].Sign.Nested = ""
		}
		r.Layout.Deflate = deflate
		out = idp.RenderResponse(r)
	default:
		l := idp.DefaultLogout(kind)
		l.Sign = sign
		l.Layout.Deflate = deflate
		out = idp.RenderLogout(l)
	}
	c02Memo.Store(id, out)
	return out
}

// c02Honoured is the reference model, from the statement: the certificate the message names
// (or the sole store member when none is named) is identical to a store member, the clock is
// inside its validity period (inclusive ends, X.509), the signing key is that certificate's
// key, and nothing signed was altered.
func c02Honoured(s c02Signer, store []string, clock time.Duration) bool {
	var named string
	switch {
	case s.KeyInfo == "":
		named = s.Key
	case strings.HasPrefix(s.KeyInfo, "cert:"):
		named = strings.TrimPrefix(s.KeyInfo, "cert:")
	case s.KeyInfo == "none":
		if len(store) != 1 {
			return false
		}
		named = store[0]
	default: // empty / garbage KeyInfo names nothing usable
		return false
	}
	inStore := false
	for _, k := range store {
		if k == named {
			inStore = true
		}
	}
	nb, na := world.Window(named)
	clockIn := clock >= nb && clock <= na
	return inStore && clockIn && named == s.Key && s.Tamper == ""
}

func c02Exec(c c02Case) (keys []string, detail string) {
	return c02ExecOn(c, nil)
}

// c02ExecOn judges the case on sp (a live instance reconfigured in place) or, when sp is nil,
// on fresh instances.
func c02ExecOn(c c02Case, live *saml2.SAMLServiceProvider) (keys []string, detail string) {
	s := c02Signers[c.Signer]
	clock := time.Duration(c.Conf.ClockNs)
	hon := c02Honoured(s, c.Conf.Store, clock)
	if c.Kind == "two-assertions" {
		// the second assertion is signed K2+C2 (wider window): both must be honoured
		hon = hon && c02Honoured(c02Signers[1], c.Conf.Store, clock)
	}
	assertionHon := hon
	if c.Kind == "response-good+assertion-state" {
		// acceptance follows the Response's own (K2) signature
		hon = c02Honoured(c02Signers[1], c.Conf.Store, clock)
	}
	msg := c02Message(c.Kind, c.Signer, c.Deflate, c.Nested, c.Wrapped, c.Indented)
	sp := live
	if sp == nil {
		sp = c.Conf.Build()
	} else {
		sp.IDPCertificateStore = world.Store(c.Conf.Store...)
		sp.Clock = world.Clock(world.T0.Add(time.Duration(c.Conf.ClockNs)))
	}
	var accepted, flagged bool
	var cr callResult
	switch c.Kind {
	case "response-signed", "assertion-signed", "both-signed", "two-assertions", "response-good+assertion-state":
		resp, r := validateResponse(sp, msg)
		cr = r
		accepted = r.Accepted()
		if accepted {
			switch c.Kind {
			case "response-signed", "both-signed", "response-good+assertion-state":
				flagged = resp.SignatureValidated
				if c.Kind == "response-good+assertion-state" && len(resp.Assertions) == 1 && resp.Assertions[0].SignatureValidated && !assertionHon {
					keys = append(keys, fmt.Sprintf("C02/%s/%s/assertion-flag-without-honoured-own-signature", c.Kind, s.Name))
				}
			case "assertion-signed":
				flagged = len(resp.Assertions) == 1 && resp.Assertions[0].SignatureValidated
			default:
				flagged = len(resp.Assertions) == 2 && resp.Assertions[0].SignatureValidated && resp.Assertions[1].SignatureValidated
			}
		}
		sp2 := live
		if sp2 == nil {
			sp2 = c.Conf.Build()
		}
		info, r2 := retrieveInfo(sp2, msg)
		if r2.Accepted() != accepted {
			keys = append(keys, fmt.Sprintf("C02/%s/entry-points-disagree", c.Kind))
		}
		if r2.Accepted() && (c.Kind == "response-signed" || c.Kind == "both-signed" || c.Kind == "response-good+assertion-state") && info.ResponseSignatureValidated != flagged {
			keys = append(keys, fmt.Sprintf("C02/%s/summary-flag-differs", c.Kind))
		}
	case "LogoutRequest":
		res, r := validateLogoutRequest(sp, msg)
		cr = r
		accepted = r.Accepted()
		if accepted {
			flagged = res.SignatureValidated
		}
	case "LogoutResponse":
		res, r := validateLogoutResponse(sp, msg)
		cr = r
		accepted = r.Accepted()
		if accepted {
			flagged = res.SignatureValidated
		}
	}
	detail = fmt.Sprintf("kind=%s signer=%s store=%v clock=%s deflate=%v honoured(model)=%v accepted=%v flagged=%v err=%q panic=%q",
		c.Kind, s.Name, c.Conf.Store, c.Clock, c.Deflate, hon, accepted, flagged, cr.Err.Text, cr.Panic)
	if cr.Panic != "" {
		keys = append(keys, fmt.Sprintf("C02/%s/%s/panic", c.Kind, s.Name))
	}
	why := "clock=" + c.Clock
	switch {
	case hon && !accepted:
		keys = append(keys, fmt.Sprintf("C02/%s/%s/honoured-but-rejected/clock=%s", c.Kind, s.Name, c.Clock))
	case hon && accepted && !flagged:
		keys = append(keys, fmt.Sprintf("C02/%s/%s/honoured-but-not-flagged", c.Kind, s.Name))
	case !hon && accepted && flagged:
		keys = append(keys, fmt.Sprintf("C02/%s/%s/unhonoured-signature-accepted-as-valid/%s", c.Kind, s.Name, why))
	case !hon && accepted:
		keys = append(keys, fmt.Sprintf("C02/%s/%s/bad-signature-downgraded-to-unsigned/%s", c.Kind, s.Name, why))
	}
	return keys, detail
}

type c02History struct {
	History []c02Case `json:"history"` // judged in order on one live, reconfigured instance
}

func c02Replay(raw json.RawMessage) ([]string, string) {
	var h c02History
	if json.Unmarshal(raw, &h) == nil && len(h.History) > 0 {
		sp := h.History[0].Conf.Build()
		var keys []string
		var detail string
		for _, c := range h.History {
			keys, detail = c02ExecOn(c, sp)
		}
		for i := range keys {
			keys[i] = strings.Replace(keys[i], "C02/", "C02/reconfigured-instance/", 1)
		}
		return keys, detail
	}
	var c c02Case
	if err := json.Unmarshal(raw, &c); err != nil {
		return nil, "bad case: " + err.Error()
	}
	return c02Exec(c)
}

func c02Run(r *mc.Run) {
	r.Rule = "full product kind(7) x signer state(13) x store(9, up to 7 certificates) x clock position(11: both ends of two certificate windows, +-1s) x presentation(2) x signature placement and layout(3: directly under the signed element, nested in an Extensions child, directly under it with the base64 values starting on a new line and wrapped at 64 columns; for signatures that are not honoured also with every such line indented by spaces, which makes the values unreadable as plain base64); a case is non-trivial when the message passed decoding and reached signature processing (every case here does: all are well-formed signed messages); distinct = distinct (kind,signer,store,clock,presentation)"
	r.Assume("goxmldsig canonicalisers (used by the harness signer) are correct", "RSA/ECDSA unforgeable")
	var cases []c02Case
	n, complete := mc.Enumerate(-1, r.Expired, func(c *mc.Chooser) {
		k := c.Choose("kind", len(c02Kinds))
		s := c.Choose("signer", len(c02Signers))
		st := c.Choose("store", len(c02Stores))
		ck := c.Choose("clock", len(c02Clocks))
		d := c.Bool("deflate")
		place := c.Choose("signature-placement-and-layout", 4)
		nested, wrapped, indented := place == 1, place == 2, place == 3
		if indented && c02Honoured(c02Signers[s], c02Stores[st], c02Clocks[ck].Off) {
			// whether a reader tolerates such a layout of a good signature is not this property's business
			return
		}
		cases = append(cases, c02Case{Kind: c02Kinds[k], Signer: s, SName: c02Signers[s].Name,
			Conf: world.SPConf{Store: c02Stores[st], ClockNs: int64(c02Clocks[ck].Off)}, Clock: c02Clocks[ck].Name, Deflate: d, Nested: nested, Wrapped: wrapped, Indented: indented})
	})
	if !complete {
		r.Cap("enumeration stopped by deadline")
	}
	r.Set("choice_vectors", n)
	r.Set("bound", "unbounded (full product)")
	r.Par(len(cases), func(i int) {
		c := cases[i]
		keys, detail := c02Exec(c)
		r.Eval(1)
		r.Nontrivial(fmt.Sprintf("%s/%d/%v/%s/%v/%v/%v/%v", c.Kind, c.Signer, c.Conf.Store, c.Clock, c.Deflate, c.Nested, c.Wrapped, c.Indented))
		hon := "not-honoured"
		if strings.Contains(detail, "honoured(model)=true") {
			hon = "honoured"
		}
		acc := "rejected"
		if strings.Contains(detail, "accepted=true") {
			acc = "accepted"
		}
		r.Bucket(hon + "/" + acc)
		if i%577 == 0 {
			r.Sample(map[string]interface{}{"case": c, "observed": detail})
		}
		for _, k := range keys {
			r.Violation(k, detail, c)
		}
	})
	c02Histories(r, cases)
}

// c02Histories walks, for every message, all (store, clock) configurations in sequence on ONE
// live instance whose store and clock are reassigned between calls (certificate roll-over by
// an operator): every verdict must still follow the configuration in force.
func c02Histories(r *mc.Run, cases []c02Case) {
	groups := map[string][]c02Case{}
	var order []string
	for _, c := range cases {
		k := fmt.Sprintf("%s/%d/%v/%v/%v/%v", c.Kind, c.Signer, c.Deflate, c.Nested, c.Wrapped, c.Indented)
		if _, ok := groups[k]; !ok {
			order = append(order, k)
		}
		groups[k] = append(groups[k], c)
	}
	r.Set("reconfiguration_histories", len(order))
	r.Par(len(order), func(i int) {
		g := groups[order[i]]
		sp := g[0].Conf.Build()
		for j, c := range g {
			keys, detail := c02ExecOn(c, sp)
			r.Eval(1)
			r.Bucket("history-step")
			for _, k := range keys {
				k = strings.Replace(k, "C02/", "C02/reconfigured-instance/", 1)
				r.Violation(k, fmt.Sprintf("step %d of a history on one instance: %s", j, detail), c02History{History: g[:j+1]})
			}
		}
	})
}

func init() {
	register("C02", &check{run: c02Run, replay: c02Replay, quick: 120 * time.Second, thor: 600 * time.Second})
}
