package main

import (
	"bytes"
	"crypto/x509"
	"encoding/base64"
	"encoding/json"
	"fmt"
	"strings"
	"time"

	"github.com/beevik/etree"
	saml2 "github.com/russellhaering/gosaml2"
	dsig "github.com/russellhaering/goxmldsig"

	"verif/idp"
	"verif/mc"
	"verif/recipient"
	"verif/world"
)

// C13 — outgoing enveloped signatures verify after serialisation with the configured key.

// key configuration: which of the four slots are filled; each slot has its own key so that
// the recipient can tell which one signed.
type c13Keys struct {
	EncField, EncSetter, SigField, SigSetter bool
}

var c13SlotKey = map[string]string{"enc-field": "KS", "enc-setter": "KX", "sig-field": "KG", "sig-setter": "K1"}

func (k c13Keys) String() string {
	p := []string{}
	for _, x := range []struct {
		on bool
		n  string
	}{{k.EncField, "enc=field"}, {k.EncSetter, "enc=setter"}, {k.SigField, "sign=field"}, {k.SigSetter, "sign=setter"}} {
		if x.on {
			p = append(p, x.n)
		}
	}
	return strings.Join(p, ",")
}

// expectedSigner is the statement's rule: explicit signing key if any, else the encryption
// key; a key given through a setter is used instead of the deprecated field.
func (k c13Keys) expectedSigner() string {
	switch {
	case k.SigSetter:
		return c13SlotKey["sig-setter"]
	case k.SigField:
		return c13SlotKey["sig-field"]
	case k.EncSetter:
		return c13SlotKey["enc-setter"]
	default:
		return c13SlotKey["enc-field"]
	}
}

func c13AllKeys() []c13Keys {
	var out []c13Keys
	for m := 1; m < 16; m++ {
		out = append(out, c13Keys{m&1 != 0, m&2 != 0, m&4 != 0, m&8 != 0})
	}
	return out
}

var c13Algs = []string{"", dsig.RSASHA1SignatureMethod, dsig.RSASHA256SignatureMethod, dsig.RSASHA384SignatureMethod, dsig.RSASHA512SignatureMethod, dsig.ECDSASHA256SignatureMethod}
var c13Canon = []string{"", idp.C14NExc, "exc+prefixlist", idp.C14N11, idp.C14N10, idp.C14NExcCom, idp.C14N11Com, idp.C14N10Com}

type c13Case struct {
	Keys  int    `json:"keys"` // index into c13AllKeys
	Alg   int    `json:"alg"`
	Canon int    `json:"canon"`
	Kind  string `json:"kind"`
	Str   []int  `json:"str"` // as in C15
	// NoSAR leaves SignAuthnRequests false (logout messages are signed regardless of it)
	NoSAR bool `json:"no_sign_authn_requests,omitempty"`
	// Chain: field key stores hold a two-certificate chain (leaf first)
	Chain bool `json:"chain,omitempty"`
	// Custom: field key stores are of a custom type (not dsig.TLSCertKeyStore)
	Custom bool `json:"custom_key_store,omitempty"`
	// CertTail, when non-zero: the signing key is given through SetSPSigningKeyStore with a
	// certificate whose DER encoding ends in this octet (a blank, a tab, a line end, a NUL)
	CertTail int `json:"signing_certificate_ends_in_octet,omitempty"`
}

func c13SP(c c13Case) (*saml2.SAMLServiceProvider, string) {
	k := c13AllKeys()[c.Keys]
	cc := c15Case{Kind: c.Kind, Signed: true, Str: c.Str, RAC: 2}
	sp := c15SP(cc)
	if c.NoSAR && c.Kind != "AuthnRequest" {
		sp.SignAuthnRequests = false
	}
	sp.SPKeyStore = nil
	ecdsa := c13Algs[c.Alg] == dsig.ECDSASHA256SignatureMethod
	expected := k.expectedSigner()
	if k.EncField {
		sp.SPKeyStore = world.FieldKeyStore(c13SlotKey["enc-field"], c.Custom)
		if c.Chain {
			sp.SPKeyStore = world.TLSKeyStoreChain(c13SlotKey["enc-field"], "K2")
		}
	}
	if k.EncSetter {
		sp.SetSPKeyStore(world.SetterKeyStore(c13SlotKey["enc-setter"]))
	}
	if k.SigField {
		sp.SPSigningKeyStore = world.FieldKeyStore(c13SlotKey["sig-field"], c.Custom)
		if c.Chain {
			sp.SPSigningKeyStore = world.TLSKeyStoreChain(c13SlotKey["sig-field"], "K2")
		}
	}
	if k.SigSetter {
		name := c13SlotKey["sig-setter"]
		if ecdsa {
			name = "KE" // a P-256 signer can only be supplied through the setter
			expected = "KE"
		}
		sp.SetSPSigningKeyStore(world.SetterKeyStore(name))
	}
	if c.CertTail != 0 {
		sp.SetSPSigningKeyStore(&saml2.KeyStore{Signer: world.Key("K1"), Cert: world.CertEndingIn("K1", byte(c.CertTail%256)).Raw})
		expected = "K1"
	}
	sp.SignAuthnRequestsAlgorithm = c13Algs[c.Alg]
	switch c13Canon[c.Canon] {
	case "":
	case "exc+prefixlist":
		sp.SignAuthnRequestsCanonicalizer = dsig.MakeC14N10ExclusiveCanonicalizerWithPrefixList("saml samlp")
	default:
		sp.SignAuthnRequestsCanonicalizer = idp.Canonicalizer(c13Canon[c.Canon], "")
	}
	return sp, expected
}

func c13Exec(c c13Case) (keys []string, detail, class string) {
	sp, expectedKey := c13SP(c)
	keys, detail, class = c13ExecOn(sp, expectedKey, c)
	if len(keys) == 0 {
		// a second message of another kind from the SAME instance (the signing context is now
		// cached) must verify under the same configuration
		c2 := c
		kinds := []string{"AuthnRequest", "LogoutRequest", "LogoutResponse"}
		for i, kd := range kinds {
			if kd == c.Kind {
				c2.Kind = kinds[(i+1)%3]
			}
		}
		if c2.Kind == "AuthnRequest" && !sp.SignAuthnRequests {
			c2.Kind = "LogoutResponse"
		}
		k2, d2, _ := c13ExecOn(sp, expectedKey, c2)
		var bad []string
		for _, k := range k2 {
			if known := strings.Contains(k, "conforming-parser") || strings.Contains(k, "prefix-list") || strings.Contains(k, "carriage-return"); !known {
				bad = append(bad, strings.Replace(k, "C13/", "C13/second-message-on-same-instance/", 1))
			}
		}
		if len(bad) > 0 {
			return bad, detail + " | second message on the same instance: " + d2, "DIFFERS"
		}
	}
	return keys, detail, class
}

func c13ExecOn(sp *saml2.SAMLServiceProvider, expectedKey string, c c13Case) (keys []string, detail, class string) {
	k := c13AllKeys()[c.Keys]
	cc := c15Case{Kind: c.Kind, Signed: true, Str: c.Str, RAC: 2}
	var out string
	var err error
	var reported []byte
	var rerr error
	p := guard(func() {
		var doc *etree.Document
		switch c.Kind {
		case "AuthnRequest":
			doc, err = sp.BuildAuthRequestDocument()
		case "LogoutRequest":
			doc, err = sp.BuildLogoutRequestDocument(cc.str(sNameID), cc.str(sSessionIndex))
		case "LogoutResponse":
			doc, err = sp.BuildLogoutResponseDocument(cc.str(sStatus), cc.str(sReqID))
		}
		if err == nil {
			out, err = doc.WriteToString()
		}
		reported, rerr = sp.GetSigningCertBytes()
	})
	algName := c13Algs[c.Alg]
	if algName == "" {
		algName = "unset"
	}
	algName = algName[strings.LastIndex(algName, "#")+1:]
	detail = fmt.Sprintf("keys={%s} alg=%s canon=%q kind=%s str=%v | err=%v reported-cert-err=%v panic=%q", k, algName, c13Canon[c.Canon], c.Kind, c.Str, err, rerr, p)
	kp := "C13/" + c.Kind + "/"
	special := ""
	for i, s := range c.Str {
		if s != 0 && strings.Contains(c15Alphabet[s-1], "\r") {
			if c15AttrValued[i] {
				special = "/carriage-return-in-attribute-valued-string"
			} else if special == "" {
				special = "/carriage-return-in-text-valued-string"
			}
		}
	}
	if p != "" {
		return []string{kp + "panic/keys=" + k.String()}, detail, "panic"
	}
	if err != nil || rerr != nil {
		return []string{kp + "builder-error/keys=" + k.String()}, detail, "ERROR"
	}
	// the recipient: parse from bytes, verify with a store holding exactly the reported certificate
	rc, perr := x509.ParseCertificate(reported)
	if perr != nil {
		return []string{kp + "reported-certificate-unparsable"}, detail, "ERROR"
	}
	expCert := world.Cert(expectedKey)
	if c.CertTail != 0 {
		expCert = world.CertEndingIn("K1", byte(c.CertTail%256))
	}
	if !bytes.Equal(reported, expCert.Raw) {
		keys = append(keys, kp+"reported-signing-certificate-is-not-the-configured-one/keys="+k.String())
	}
	d := etree.NewDocument()
	if e := d.ReadFromString(out); e != nil {
		return []string{kp + "output-not-parseable"}, detail + " | " + e.Error(), "ERROR"
	}
	ctx := dsig.NewDefaultValidationContext(&dsig.MemoryX509CertificateStore{Roots: []*x509.Certificate{rc}})
	ctx.Clock = world.Clock(world.T0)
	verified, verr := ctx.Validate(d.Root())
	if verr != nil {
		detail += " | recipient verification with the reported certificate: " + verr.Error()
		// which certificate does verify?
		who := "none"
		slots := map[string]string{"rotated-in-key": "KA"}
		for slot, kn := range c13SlotKey {
			slots[slot] = kn
		}
		for slot, kn := range slots {
			c2 := dsig.NewDefaultValidationContext(&dsig.MemoryX509CertificateStore{Roots: []*x509.Certificate{world.Cert(kn)}})
			c2.Clock = world.Clock(world.T0)
			d2 := etree.NewDocument()
			d2.ReadFromString(out)
			if _, e := c2.Validate(d2.Root()); e == nil {
				who = slot
			}
		}
		detail += " | verifies with: " + who
		if who != "none" {
			return append(keys, kp+"signed-with-another-key-than-reported/keys="+k.String()), detail, "WRONG-KEY"
		}
		cn := ""
		if c13Canon[c.Canon] == "exc+prefixlist" {
			cn = "/canonicaliser=exclusive-with-prefix-list"
		}
		return append(keys, kp+"signature-does-not-verify-after-serialisation"+cn+special), detail, "BROKEN"
	}
	// the verified element must be the whole message
	root, perr2 := recipient.Parse([]byte(out))
	if perr2 != nil {
		return append(keys, kp+"not-well-formed"), detail, "ERROR"
	}
	if verified.Tag != c.Kind || len(verified.ChildElements())+1 != len(root.Children) || len(verified.Attr) < len(root.Attrs) {
		keys = append(keys, kp+"signature-does-not-cover-the-whole-message")
	}
	// declared algorithms
	sig := d.Root().FindElement("./Signature")
	if sig == nil {
		return append(keys, kp+"no-signature-element"), detail, "ERROR"
	}
	wantAlg := c13Algs[c.Alg]
	if wantAlg == "" {
		wantAlg = dsig.RSASHA256SignatureMethod
	}
	wantCanon := c13Canon[c.Canon]
	switch wantCanon {
	case "":
		wantCanon = idp.C14N11
	case "exc+prefixlist":
		wantCanon = idp.C14NExc
	}
	if a := sig.FindElement("./SignedInfo/SignatureMethod"); a == nil || a.SelectAttrValue("Algorithm", "") != wantAlg {
		keys = append(keys, kp+"declared-signature-method-differs-from-configured/"+algName)
	}
	if a := sig.FindElement("./SignedInfo/CanonicalizationMethod"); a == nil || a.SelectAttrValue("Algorithm", "") != wantCanon {
		keys = append(keys, kp+"declared-canonicaliser-differs-from-configured")
	}
	trs := sig.FindElements("./SignedInfo/Reference/Transforms/Transform")
	if len(trs) != 2 || trs[0].SelectAttrValue("Algorithm", "") != idp.EnvelopedSig || trs[1].SelectAttrValue("Algorithm", "") != wantCanon {
		keys = append(keys, kp+"transforms-differ-from-configured")
	}
	if ref := sig.FindElement("./SignedInfo/Reference"); ref == nil || ref.SelectAttrValue("URI", "") != "#"+d.Root().SelectAttrValue("ID", "") {
		keys = append(keys, kp+"reference-does-not-name-the-message-id")
	}
	// embedded certificate = reported
	if x := sig.FindElement("./KeyInfo/X509Data/X509Certificate"); x == nil {
		keys = append(keys, kp+"no-embedded-certificate")
	} else if b, e := base64.StdEncoding.DecodeString(strings.TrimSpace(x.Text())); e != nil || !bytes.Equal(b, reported) {
		keys = append(keys, kp+"embedded-certificate-differs-from-reported/keys="+k.String())
	}
	// placement: immediately after Issuer
	if len(root.Children) < 2 || root.Children[0].Local != "Issuer" || root.Children[1].Local != "Signature" || root.Children[1].NS != idp.NSDS {
		keys = append(keys, kp+"signature-not-immediately-after-issuer")
	}
	// metadata publishes the same certificate (defined where an encryption key exists)
	if k.EncField || k.EncSetter {
		var md string
		mp := guard(func() {
			m, e := sp.Metadata()
			if e != nil {
				md = "error: " + e.Error()
				return
			}
			for _, kd := range m.SPSSODescriptor.KeyDescriptors {
				if kd.Use == "signing" && len(kd.KeyInfo.X509Data.X509Certificates) > 0 {
					md = kd.KeyInfo.X509Data.X509Certificates[0].Data
				}
			}
		})
		// the single-logout variant publishes the same signing certificate
		if mp == "" && md != "" {
			var md2 string
			mp = guard(func() {
				m, e := sp.MetadataWithSLO(24)
				if e != nil {
					md2 = "error: " + e.Error()
					return
				}
				for _, kd := range m.SPSSODescriptor.KeyDescriptors {
					if kd.Use == "signing" && len(kd.KeyInfo.X509Data.X509Certificates) > 0 {
						md2 = kd.KeyInfo.X509Data.X509Certificates[0].Data
					}
				}
			})
			if mp == "" && md2 != md {
				keys = append(keys, "C13/metadata/single-logout-variant-publishes-another-signing-key/keys="+k.String())
			}
		}
		switch {
		case mp != "":
			keys = append(keys, "C13/metadata/panic")
		case md == "":
			keys = append(keys, "C13/metadata/no-signing-key-published/keys="+k.String())
		case md != base64.StdEncoding.EncodeToString(reported):
			keys = append(keys, "C13/metadata/signing-key-differs-from-reported/keys="+k.String())
		}
	}
	if hz := recipient.RawHazards([]byte(out)); len(hz) > 0 {
		keys = append(keys, kp+"conforming-parser-would-normalise/"+hz[0])
		detail += " | " + strings.Join(hz, ",")
	}
	if len(keys) > 0 {
		return dedupe(keys), detail, "DIFFERS"
	}
	return nil, detail, "verifies/" + algName
}

// ---- histories: keys replaced through the setters on an instance that has already signed ----

// c13Hist is one operation sequence on one instance. The instance starts with an encryption key
// in the field (and, for Init 1, a signing key in the field) and SignAuthnRequests on.
type c13Hist struct {
	Init int   `json:"init"`
	Ops  []int `json:"ops"` // indices into c13HistOps
}

var c13HistOps = []string{
	"SetSPKeyStore(KX)", "SetSPKeyStore(nil)",
	"SetSPSigningKeyStore(K1)", "SetSPSigningKeyStore(KA)", "SetSPSigningKeyStore(nil)",
	"build AuthnRequest", "build LogoutRequest", "build LogoutResponse",
}

// c13HistExec replays the history on a fresh instance; the oracle runs on the last operation when
// it is a build: the message must verify with the certificate that the rule of the statement
// picks from the configuration in force at that moment (the model: two setter slots).
func c13HistExec(h c13Hist) (keys []string, detail, class string) {
	cc := c15Case{Kind: "AuthnRequest", Signed: true, Str: make([]int, sCount), RAC: 2}
	sp := c15SP(cc)
	sp.SPKeyStore = world.TLSKeyStore("KS")
	k := c13Keys{EncField: true}
	if h.Init == 1 {
		sp.SPSigningKeyStore = world.TLSKeyStore("KG")
		k.SigField = true
	}
	sigSetter := ""
	names := []string{}
	built := false
	afterBuild := false // a key was replaced after the instance had already signed
	for i, op := range h.Ops {
		names = append(names, c13HistOps[op])
		last := i == len(h.Ops)-1
		var serr error
		sp := sp
		pnc := guard(func() {
			switch op {
			case 0:
				serr = sp.SetSPKeyStore(world.SetterKeyStore("KX"))
			case 1:
				serr = sp.SetSPKeyStore(nil)
			case 2, 3:
				serr = sp.SetSPSigningKeyStore(world.SetterKeyStore([]string{"K1", "KA"}[op-2]))
			case 4:
				serr = sp.SetSPSigningKeyStore(nil)
			}
		})
		if pnc != "" || serr != nil {
			return []string{"C13/history/setter-fails"}, fmt.Sprintf("history=%v: step %d %s: err=%v panic=%q", names, i, c13HistOps[op], serr, pnc), "ERROR"
		}
		switch op {
		case 0:
			k.EncSetter = true
		case 1:
			k.EncSetter = false
		case 2, 3:
			sigSetter = []string{"K1", "KA"}[op-2]
			k.SigSetter = true
		case 4:
			k.SigSetter, sigSetter = false, ""
		default:
			kind := []string{"AuthnRequest", "LogoutRequest", "LogoutResponse"}[op-5]
			if !last {
				var err error
				p := guard(func() {
					switch kind {
					case "AuthnRequest":
						_, err = sp.BuildAuthRequestDocument()
					case "LogoutRequest":
						_, err = sp.BuildLogoutRequestDocument("n", "s")
					default:
						_, err = sp.BuildLogoutResponseDocument(saml2.StatusCodeSuccess, "_r")
					}
				})
				if p != "" || err != nil {
					return []string{"C13/after-reconfiguration/builder-fails"}, fmt.Sprintf("history=%v: step %d: err=%v panic=%q", names, i, err, p), "ERROR"
				}
				built = true
				continue
			}
			expected := k.expectedSigner()
			if k.SigSetter {
				expected = sigSetter
			}
			mask := 0
			for b, on := range []bool{k.EncField, k.EncSetter, k.SigField, k.SigSetter} {
				if on {
					mask |= 1 << b
				}
			}
			ks, d, cl := c13ExecOn(sp, expected, c13Case{Keys: mask - 1, Kind: kind, Str: make([]int, sCount)})
			detail = fmt.Sprintf("history=%v expected-signer=%s | %s", names, expected, d)
			when := "fresh-configuration"
			if afterBuild {
				when = "key-replaced-after-first-signature"
			}
			for _, x := range ks {
				if i := strings.Index(x, "/keys="); i >= 0 {
					x = x[:i]
				}
				keys = append(keys, strings.Replace(x, "C13/", "C13/history/"+when+"/", 1))
			}
			if len(keys) > 0 {
				return dedupe(keys), detail, "history/" + cl
			}
			return nil, detail, "history/verifies/" + when
		}
		if built && op < 5 {
			afterBuild = true
		}
	}
	return nil, fmt.Sprintf("history=%v (no build at the end)", names), "history/no-build"
}

func c13Histories(depth int) []c13Hist {
	var out []c13Hist
	var rec func(prefix []int)
	rec = func(prefix []int) {
		if len(prefix) > 0 && prefix[len(prefix)-1] >= 5 {
			for init := 0; init < 2; init++ {
				out = append(out, c13Hist{Init: init, Ops: append([]int(nil), prefix...)})
			}
		}
		if len(prefix) == depth {
			return
		}
		for op := range c13HistOps {
			rec(append(prefix, op))
		}
	}
	rec(nil)
	return out
}

// ---- tenants: several providers in one process given the very same key material ----

// c13Shared: two providers with their own algorithm and canonicaliser are handed the SAME key
// store object (the same *KeyStore through a setter, or the same X509KeyStore value in a field).
// A builds, B builds, A builds again: each message must follow the configuration of the provider
// that built it.
type c13Shared struct {
	Shared bool    `json:"tenants_sharing_one_key_store"`
	Slot   string  `json:"slot"` // enc-setter | sig-setter | enc-field
	A      c13Case `json:"a"`
	B      c13Case `json:"b"`
}

func c13SharedExec(h c13Shared) (keys []string, detail, class string) {
	h.A.Keys, h.B.Keys = 1, 1 // encryption setter only; replaced below
	spA, _ := c13SP(h.A)
	spB, _ := c13SP(h.B)
	expected := ""
	switch h.Slot {
	case "enc-setter":
		ks := world.SetterKeyStore("KX")
		spA.SetSPKeyStore(ks)
		spB.SetSPKeyStore(ks)
		expected = "KX"
	case "sig-setter":
		ks := world.SetterKeyStore("K1")
		spA.SetSPSigningKeyStore(ks)
		spB.SetSPSigningKeyStore(ks)
		expected = "K1"
		h.A.Keys, h.B.Keys = 9, 9 // encryption setter + signing setter
	case "enc-field":
		store := world.TLSKeyStore("KS")
		spA.SetSPKeyStore(nil)
		spB.SetSPKeyStore(nil)
		spA.SPKeyStore, spB.SPKeyStore = store, store
		expected = "KS"
		h.A.Keys, h.B.Keys = 0, 0
	}
	steps := []struct {
		who string
		sp  *saml2.SAMLServiceProvider
		c   c13Case
	}{{"A", spA, h.A}, {"B", spB, h.B}, {"A-again", spA, h.A}, {"B-again", spB, h.B}}
	class = "tenants/verify"
	for _, st := range steps {
		k, d, _ := c13ExecOn(st.sp, expected, st.c)
		detail += fmt.Sprintf(" | %s: %s", st.who, d[:min(len(d), 400)])
		for _, x := range k {
			keys = append(keys, strings.Replace(x, "C13/", "C13/providers-sharing-one-key-store/"+st.who+"/", 1))
		}
		if len(k) > 0 {
			class = "DIFFERS"
			break
		}
	}
	return dedupe(keys), detail, class
}

func c13SharedCases() []c13Shared {
	var out []c13Shared
	algs := []int{0, 1, 2, 4}
	canons := []int{0, 1, 3}
	kinds := [][2]string{{"LogoutResponse", "AuthnRequest"}, {"AuthnRequest", "LogoutRequest"}, {"LogoutRequest", "LogoutResponse"}}
	for _, slot := range []string{"enc-setter", "sig-setter", "enc-field"} {
		for _, aa := range algs {
			for _, ab := range algs {
				for _, ca := range canons {
					for _, cb := range canons {
						for _, kd := range kinds {
							out = append(out, c13Shared{Shared: true, Slot: slot,
								A: c13Case{Alg: aa, Canon: ca, Kind: kd[0], Str: make([]int, sCount)},
								B: c13Case{Alg: ab, Canon: cb, Kind: kd[1], Str: make([]int, sCount)}})
						}
					}
				}
			}
		}
	}
	return out
}

// ---- the exported Sign* methods on an element the caller owns and reuses ----

// c13Template: the caller keeps an unsigned element as a template, signs it (SignAuthnRequest /
// SignLogoutRequest / SignLogoutResponse), keeps the signed message, then changes the template
// in place (ID, the Issuer text, one more child) and signs it again. Both signed messages must
// verify, each with the values the template had when it was signed, and the first must still
// serialise to the bytes it serialised to before the template was touched again.
type c13Template struct {
	Template bool   `json:"signed_from_a_reused_template"`
	Kind     string `json:"kind"`
	Alg      int    `json:"alg"`
	Canon    int    `json:"canon"`
}

func c13TemplateExec(t c13Template) (keys []string, detail, class string) {
	c := c13Case{Keys: 0, Alg: t.Alg, Canon: t.Canon, Kind: t.Kind, Str: make([]int, sCount)}
	sp, _ := c13SP(c)
	kp := "C13/" + t.Kind + "/signed-from-a-reused-template/"
	var first, firstLater, second string
	var err error
	p := guard(func() {
		var doc *etree.Document
		var sign func(*etree.Element) (*etree.Element, error)
		switch t.Kind {
		case "AuthnRequest":
			doc, err = sp.BuildAuthRequestDocumentNoSig()
			sign = sp.SignAuthnRequest
		case "LogoutRequest":
			doc, err = sp.BuildLogoutRequestDocumentNoSig("alice@example.com", "_session-1")
			sign = sp.SignLogoutRequest
		default:
			doc, err = sp.BuildLogoutResponseDocumentNoSig(saml2.StatusCodeSuccess, "_req-1")
			sign = sp.SignLogoutResponse
		}
		if err != nil {
			return
		}
		el := doc.Root()
		ser := func(e *etree.Element) string {
			d := etree.NewDocument()
			d.SetRoot(e.Copy())
			x, _ := d.WriteToString()
			return x
		}
		var s1, s2 *etree.Element
		if s1, err = sign(el); err != nil {
			return
		}
		first = ser(s1)
		// the template is reused for the next message
		el.CreateAttr("ID", "_second-message")
		for _, ch := range el.ChildElements() {
			if ch.Tag == "Issuer" {
				ch.SetText("https://second.example.com/metadata")
			}
		}
		el.CreateElement("samlp:Extensions").CreateElement("note").SetText("second")
		if s2, err = sign(el); err != nil {
			return
		}
		second = ser(s2)
		firstLater = ser(s1)
	})
	detail = fmt.Sprintf("%+v | err=%v panic=%q", t, err, p)
	if p != "" {
		return []string{kp + "panic"}, detail, "panic"
	}
	if err != nil {
		return []string{kp + "error"}, detail, "ERROR"
	}
	cert, _ := sp.GetSigningCertBytes()
	rc, _ := x509.ParseCertificate(cert)
	verify := func(x string) (string, error) {
		d := etree.NewDocument()
		if e := d.ReadFromString(x); e != nil {
			return "", e
		}
		ctx := dsig.NewDefaultValidationContext(&dsig.MemoryX509CertificateStore{Roots: []*x509.Certificate{rc}})
		ctx.Clock = world.Clock(world.T0)
		if _, e := ctx.Validate(d.Root()); e != nil {
			return "", e
		}
		return d.Root().SelectAttrValue("ID", ""), nil
	}
	if firstLater != first {
		keys = append(keys, kp+"earlier-signed-message-changed-when-the-template-was-reused")
		detail += fmt.Sprintf(" | first message then %.200q, later %.200q", first, firstLater)
	}
	if id, e := verify(firstLater); e != nil || id == "_second-message" {
		keys = append(keys, kp+"earlier-signed-message-no-longer-verifies")
		detail += fmt.Sprintf(" | first message, serialised after the second was signed: ID=%q %v", id, e)
	}
	if id, e := verify(second); e != nil || id != "_second-message" {
		keys = append(keys, kp+"second-signed-message-does-not-verify-with-its-own-values")
		detail += fmt.Sprintf(" | second message: ID=%q %v", id, e)
	}
	if len(keys) > 0 {
		return dedupe(keys), detail, "DIFFERS"
	}
	return nil, detail, "template/verify"
}

func c13Templates() []c13Template {
	var out []c13Template
	for _, kind := range []string{"AuthnRequest", "LogoutRequest", "LogoutResponse"} {
		for _, a := range []int{0, 1, 2, 4} {
			for _, cn := range []int{0, 1, 3, 4} {
				out = append(out, c13Template{Template: true, Kind: kind, Alg: a, Canon: cn})
			}
		}
	}
	return out
}

func c13Replay(raw json.RawMessage) ([]string, string) {
	var tp c13Template
	if err := json.Unmarshal(raw, &tp); err == nil && tp.Template {
		k, d, _ := c13TemplateExec(tp)
		return k, d
	}
	var sh c13Shared
	if err := json.Unmarshal(raw, &sh); err == nil && sh.Shared {
		k, d, _ := c13SharedExec(sh)
		return k, d
	}
	var h c13Hist
	if err := json.Unmarshal(raw, &h); err == nil && len(h.Ops) > 0 {
		k, d, _ := c13HistExec(h)
		return k, d
	}
	var c c13Case
	if err := json.Unmarshal(raw, &c); err != nil {
		return nil, err.Error()
	}
	k, d, _ := c13Exec(c)
	return k, d
}

func c13Run(r *mc.Run) {
	bound := 1
	if r.Thorough() {
		bound = 2
	}
	r.Rule = "full product key configuration(15: every non-empty subset of {encryption field, encryption setter, signing field, signing setter}, a distinct key per slot) x signature algorithm(6: unset, rsa-sha1/256/384/512, ecdsa-sha256 with a setter-supplied P-256 signer) x canonicaliser(8) x message kind(3) (logout kinds with SignAuthnRequests on and off; signing certificates whose DER encoding ends in a blank, tab, line-end or NUL octet; field key stores also as certificate chains and as a key store of a custom type), with <=1 (quick) / <=2 (thorough) of 12 configuration strings taken from a 17-value special-character alphabet; oracle = the recipient: re-parse from bytes, goxmldsig verification with exactly the reported certificate, declared algorithms, embedded certificate, placement after Issuer, metadata signing key; plus every operation sequence of <=4 (quick) / <=5 (thorough) steps over {SetSPKeyStore(key|nil), SetSPSigningKeyStore(key1|key2|nil), build of each kind} ending in a build, from two initial field configurations, replayed on a fresh instance: the last message must verify with the certificate the statement's rule picks from the setters in force at that moment (keys replaced after the instance has already signed); plus two providers handed the very same key store object (setter *KeyStore for the encryption or signing slot, or one X509KeyStore value in the field), full product (algorithm(4) x canonicaliser(3)) of each x 3 kind pairs x 3 slots, building A, B, A, B: each message follows the configuration of the provider that built it; plus the exported Sign* methods on a caller-owned element that is signed, changed in place (ID, Issuer, one more child) and signed again, kind(3) x algorithm(4) x canonicaliser(4): both messages verify with their own values and the first still serialises as it did. non-trivial = a signed document was produced and verified; distinct = distinct case"
	r.Assume("goxmldsig's validator as the recipient's verifier (trusted base)")
	var cases []c13Case
	nk := len(c13AllKeys())
	for ki := 0; ki < nk; ki++ {
		for a := range c13Algs {
			if c13Algs[a] == dsig.ECDSASHA256SignatureMethod && !c13AllKeys()[ki].SigSetter {
				continue
			}
			for cn := range c13Canon {
				for _, kind := range []string{"AuthnRequest", "LogoutRequest", "LogoutResponse"} {
					cases = append(cases, c13Case{Keys: ki, Alg: a, Canon: cn, Kind: kind, Str: make([]int, sCount)})
					if kind != "AuthnRequest" {
						cases = append(cases, c13Case{Keys: ki, Alg: a, Canon: cn, Kind: kind, Str: make([]int, sCount), NoSAR: true})
					}
					if kk := c13AllKeys()[ki]; (kk.EncField || kk.SigField) && a <= 1 && cn <= 1 {
						cases = append(cases, c13Case{Keys: ki, Alg: a, Canon: cn, Kind: kind, Str: make([]int, sCount), Chain: true})
						cases = append(cases, c13Case{Keys: ki, Alg: a, Canon: cn, Kind: kind, Str: make([]int, sCount), Custom: true})
					}
				}
			}
		}
	}
	// signing certificates whose encoding ends in an octet that reads as white space (256 = NUL)
	for _, tail := range []int{0x20, 0x09, 0x0a, 0x0d, 256} {
		for _, kind := range []string{"AuthnRequest", "LogoutRequest", "LogoutResponse"} {
			cases = append(cases, c13Case{Keys: 9, Kind: kind, Str: make([]int, sCount), CertTail: tail})
		}
	}
	n0 := len(cases)
	// strings: deviation-bounded, on two key configurations and two canonicalisers
	for _, kind := range []string{"AuthnRequest", "LogoutRequest", "LogoutResponse"} {
		for _, cn := range []int{0, 1, 5} {
			kind, cn := kind, cn
			mc.Enumerate(bound, r.Expired, func(ch *mc.Chooser) {
				c := c13Case{Keys: 0, Alg: 0, Canon: cn, Kind: kind, Str: make([]int, sCount)}
				for i := 0; i < sCount; i++ {
					c.Str[i] = ch.Choose(c15StrNames[i], len(c15Alphabet)+1)
					// dependency limit: Go's encoding/xml rejects "]]>" inside an attribute value, and
					// goxmldsig (the recipient's verifier here, and any Go recipient) re-parses the
					// canonical bytes with it; such values are outside the domain
					if c.Str[i] != 0 && c15AttrValued[i] && strings.Contains(c15Alphabet[c.Str[i]-1], "]]>") {
						return
					}
				}
				cases = append(cases, c)
			})
		}
	}
	r.Set("algorithm_product", n0)
	r.Set("string_cases", len(cases)-n0)
	r.State(len(cases))
	// histories: every sequence of <= depth operations ending in a build
	depth := 4
	if r.Thorough() {
		depth = 5
	}
	hists := c13Histories(depth)
	r.Set("history_depth", depth)
	r.Set("histories", len(hists))
	r.State(len(hists))
	defer r.Par(len(hists), func(i int) {
		if r.Expired() {
			r.Cap("history enumeration stopped by deadline")
			return
		}
		keys, detail, class := c13HistExec(hists[i])
		r.Eval(1)
		r.Transition(len(hists[i].Ops))
		r.Bucket(class)
		r.Nontrivial(fmt.Sprintf("%+v", hists[i]))
		if i%2003 == 0 {
			r.Sample(map[string]interface{}{"history": hists[i], "observed": detail[:min(len(detail), 500)]})
		}
		for _, k := range keys {
			r.Violation(k, detail[:min(len(detail), 1500)], hists[i])
		}
	})
	tmpls := c13Templates()
	r.Set("signed_from_a_reused_template", len(tmpls))
	defer r.Par(len(tmpls), func(i int) {
		keys, detail, class := c13TemplateExec(tmpls[i])
		r.Eval(2)
		r.State(1)
		r.Transition(2)
		r.Bucket(class)
		r.Nontrivial(fmt.Sprintf("%+v", tmpls[i]))
		for _, k := range keys {
			r.Violation(k, detail[:min(len(detail), 1500)], tmpls[i])
		}
	})
	shared := c13SharedCases()
	r.Set("providers_sharing_one_key_store", len(shared))
	r.State(len(shared))
	defer r.Par(len(shared), func(i int) {
		keys, detail, class := c13SharedExec(shared[i])
		r.Eval(4)
		r.Transition(4)
		r.Bucket(class)
		r.Nontrivial(fmt.Sprintf("%+v", shared[i]))
		if i%401 == 0 {
			r.Sample(map[string]interface{}{"tenants": shared[i], "observed": detail[:min(len(detail), 500)]})
		}
		for _, k := range keys {
			r.Violation(k, detail[:min(len(detail), 1500)], shared[i])
		}
	})
	r.Par(len(cases), func(i int) {
		c := cases[i]
		keys, detail, class := c13Exec(c)
		r.Eval(1)
		r.Transition(1)
		r.Bucket(class)
		if strings.HasPrefix(class, "verifies") || class == "DIFFERS" || class == "WRONG-KEY" || class == "BROKEN" {
			r.Nontrivial(fmt.Sprintf("%+v", c))
		}
		if i%1201 == 0 {
			r.Sample(map[string]interface{}{"case": c, "observed": detail[:min(len(detail), 500)]})
		}
		for _, k := range keys {
			r.Violation(k, detail[:min(len(detail), 1500)], c)
		}
	})
}

func init() {
	register("C13", &check{run: c13Run, replay: c13Replay, quick: 300 * time.Second, thor: 1500 * time.Second})
}
