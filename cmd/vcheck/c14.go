package main

import (
	"crypto"
	"crypto/ecdsa"
	"crypto/rsa"
	"crypto/sha1"
	"crypto/sha256"
	"crypto/sha512"
	"crypto/x509"
	"encoding/base64"
	"encoding/hex"
	"encoding/json"
	"errors"
	"fmt"
	"io"
	"net/http"
	"net/http/httptest"
	"sort"
	"strings"
	"time"

	"github.com/beevik/etree"
	saml2 "github.com/russellhaering/gosaml2"
	dsig "github.com/russellhaering/goxmldsig"

	"verif/mc"
	"verif/recipient"
	"verif/world"
)

// C14 — redirect URLs carry the exact message and a signature over exact query octets.

var c14Relay = []string{"", "foobar", "a b", "a+b", "a&b=c", "100%", "%41", "ünï/日本", "a;b", "~._-*", "line1\nline2", strings.Repeat("relay-state-", 170), "SAMLRequest=x&SigAlg=y", "#frag?x", " lead", "trail ", " ", "\t", "café", "日本語", "a.b-c_d~e", "Ünï9"}
var c14Docs = []string{"authn", "logout", "tiny", "non-ascii", "prolog-and-trailer", "authn-with-enveloped-signature"}
var c14URLs = []string{"https://idp.example.com/sso", "https://idp.example.com/sso?x=1", "https://idp.example.com/sso?x=1&y=a%20b&x=2", "https://idp.example.com/a%20path/sso", "https://idp.example.com/sso?empty=&flag"}
var c14Funcs = []string{"BuildAuthURL", "BuildAuthURLFromDocument", "BuildAuthURLRedirect", "BuildLogoutURLRedirect", "AuthRedirect"}
var c14Algs = []string{"", dsig.RSASHA1SignatureMethod, dsig.RSASHA512SignatureMethod, dsig.ECDSASHA256SignatureMethod}
var c14Keys = []string{"field", "setter", "separate-signing-field", "separate-signing-setter", "ecdsa-signing-setter", "signing-field+encryption-setter",
	// signing keys that cannot sign: a signer whose Sign fails (an HSM that is away), a signing key
	// store whose read fails; where a signature is due the builder must say so, not hand out a URL
	"failing-signer-setter", "failing-signing-key-store-field"}

type c14FailSigner struct{ pub crypto.PublicKey }

func (f c14FailSigner) Public() crypto.PublicKey { return f.pub }
func (f c14FailSigner) Sign(io.Reader, []byte, crypto.SignerOpts) ([]byte, error) {
	return nil, errors.New("signing device unavailable")
}

func c14Failing(c c14Case) bool { return strings.HasPrefix(c14Keys[c.Keys], "failing-") }

type c14Case struct {
	Relay int  `json:"relay"`
	Doc   int  `json:"doc"`
	URL   int  `json:"url"`
	Func  int  `json:"func"`
	Sign  bool `json:"sign_authn_requests"`
	Alg   int  `json:"alg"`
	Keys  int  `json:"keys"`
	// Frags, when set, makes the relay state the concatenation of these fragments of
	// c14Fragments instead of c14Relay[Relay]
	Frags []int `json:"fragments,omitempty"`
	// Pad, when non-zero, adds an element with that many bytes of text (half of it hard to
	// compress) to the document before the URL is built
	Pad int `json:"document_padding_bytes,omitempty"`
	// Bind: the provider's IdentityProviderSSOBinding / IdentityProviderSLOBinding settings (what
	// the IdP's metadata advertises): 0 unset, 1 both HTTP-POST, 2 both HTTP-Redirect. The caller
	// chose the redirect builders; what they return does not depend on these
	Bind int `json:"idp_binding_settings,omitempty"`
}

// c14Pads: documents from 1 kB to 300 kB (DEFLATE window and stored-block sizes, base64 groups)
var c14Pads = []int{1000, 1001, 1002, 8200, 16400, 33000, 33001, 66000, 66002, 140000, 300000}

func c14PadText(n int) string {
	var b strings.Builder
	h := sha256.Sum256([]byte("c14"))
	for b.Len() < n/2 {
		b.WriteString(hex.EncodeToString(h[:]))
		h = sha256.Sum256(h[:])
	}
	for b.Len() < n {
		b.WriteString("0123456789abcdef")
	}
	return b.String()[:n]
}

// c14Fragments are pieces with a meaning in a query string or in percent-encoding.
var c14Fragments = []string{" ", "+", "&", "=", "%", "%41", "%2B", "#", "?", ";", "/", ":", "é", "日", "\n", "~", "*", "'", "\"", "SAMLRequest=", "&SigAlg=", "&Signature=", "x"}

func (c c14Case) relay() string {
	if len(c.Frags) == 0 {
		return c14Relay[c.Relay]
	}
	var b strings.Builder
	for _, f := range c.Frags {
		b.WriteString(c14Fragments[f])
	}
	return b.String()
}

func c14SP(c c14Case) (*saml2.SAMLServiceProvider, string) {
	sp := world.SP()
	sp.IdentityProviderSSOURL = c14URLs[c.URL]
	sp.IdentityProviderSLOURL = c14URLs[c.URL]
	sp.SignAuthnRequests = c.Sign
	sp.SignAuthnRequestsAlgorithm = c14Algs[c.Alg]
	switch c.Bind {
	case 1:
		sp.IdentityProviderSSOBinding, sp.IdentityProviderSLOBinding = saml2.BindingHttpPost, saml2.BindingHttpPost
	case 2:
		sp.IdentityProviderSSOBinding, sp.IdentityProviderSLOBinding = saml2.BindingHttpRedirect, saml2.BindingHttpRedirect
	}
	signer := "KS"
	switch c14Keys[c.Keys] {
	case "setter":
		sp.SPKeyStore = nil
		sp.SetSPKeyStore(world.SetterKeyStore("KX"))
		signer = "KX"
	case "separate-signing-field":
		sp.SPSigningKeyStore = world.TLSKeyStore("KG")
		signer = "KG"
	case "separate-signing-setter":
		sp.SetSPSigningKeyStore(world.SetterKeyStore("K1"))
		signer = "K1"
	case "signing-field+encryption-setter":
		sp.SPKeyStore = nil
		sp.SetSPKeyStore(world.SetterKeyStore("KX"))
		sp.SPSigningKeyStore = world.TLSKeyStore("KG")
		signer = "KG"
	}
	switch c14Keys[c.Keys] {
	case "failing-signer-setter":
		sp.SetSPSigningKeyStore(&saml2.KeyStore{Signer: c14FailSigner{world.RSAKey("K1").Public()}, Cert: world.Cert("K1").Raw})
		return sp, "K1"
	case "failing-signing-key-store-field":
		sp.SPSigningKeyStore = &world.PlainKeyStore{Err: errors.New("key store unavailable")}
		return sp, "KG"
	}
	if c14Algs[c.Alg] == dsig.ECDSASHA256SignatureMethod || c14Keys[c.Keys] == "ecdsa-signing-setter" {
		sp.SetSPSigningKeyStore(world.SetterKeyStore("KE"))
		signer = "KE"
	}
	return sp, signer
}

func c14Doc(sp *saml2.SAMLServiceProvider, which string) (*etree.Document, error) {
	switch which {
	case "authn":
		return sp.BuildAuthRequestDocumentNoSig()
	case "logout":
		return sp.BuildLogoutRequestDocumentNoSig("alice@example.com", "_session-1")
	case "authn-with-enveloped-signature":
		// a document that already carries an enveloped signature (made for the POST binding, say)
		// (built by another provider, one that can sign: the provider under test only has to carry it)
		other := world.SP()
		other.IdentityProviderSSOURL, other.IdentityProviderSLOURL = sp.IdentityProviderSSOURL, sp.IdentityProviderSLOURL
		other.SignAuthnRequests = true
		return other.BuildAuthRequestDocument()
	case "tiny":
		d := etree.NewDocument()
		d.CreateElement("a")
		return d, nil
	case "prolog-and-trailer":
		// a document the caller parsed from text: declaration, comment and processing instruction
		// before the root, comment and newline after it
		d := etree.NewDocument()
		err := d.ReadFromString("<?xml version=\"1.0\" encoding=\"UTF-8\"?>\n<!-- before -->\n<?pi data?>\n<samlp:AuthnRequest xmlns:samlp=\"urn:oasis:names:tc:SAML:2.0:protocol\" ID=\"_p1\" Version=\"2.0\"><note>x</note></samlp:AuthnRequest>\n<!-- after -->\n")
		return d, err
	default:
		d := etree.NewDocument()
		e := d.CreateElement("samlp:AuthnRequest")
		e.CreateAttr("xmlns:samlp", "urn:oasis:names:tc:SAML:2.0:protocol")
		e.CreateAttr("ID", "_ünï-日本-😀")
		e.CreateElement("note").SetText("ünïcödé & <markup> \"quotes\" " + strings.Repeat("日本語", 50))
		return d, nil
	}
}

func c14Exec(c c14Case) (keys []string, detail, class string) {
	sp, signer := c14SP(c)
	keys, detail, class = c14ExecOn(sp, signer, c)
	if len(keys) == 0 {
		// a second URL from the SAME instance with another relay state and document
		c2 := c
		c2.Relay, c2.Frags = (c.Relay+5)%len(c14Relay), nil
		c2.Doc = (c.Doc + 1) % len(c14Docs)
		// ... and another IdP endpoint (metadata refresh): the URL follows the configuration of
		// this call
		c2.URL = (c.URL + 1) % len(c14URLs)
		sp.IdentityProviderSSOURL, sp.IdentityProviderSLOURL = c14URLs[c2.URL], c14URLs[c2.URL]
		k2, d2, _ := c14ExecOn(sp, signer, c2)
		for _, k := range k2 {
			keys = append(keys, strings.Replace(k, "C14/", "C14/second-call-on-same-instance/", 1))
		}
		if len(k2) > 0 {
			detail += " | second call on the same instance: " + d2
			class = "DIFFERS"
		}
	}
	if len(keys) == 0 && signer != "KE" {
		// the signing key is rolled over through the setter on the instance that has already
		// signed: the next URL is signed with the new key
		sp.SetSPSigningKeyStore(world.SetterKeyStore("KA"))
		c3 := c
		sp.IdentityProviderSSOURL, sp.IdentityProviderSLOURL = c14URLs[c3.URL], c14URLs[c3.URL]
		c3.Relay, c3.Frags = (c.Relay+3)%len(c14Relay), nil
		k3, d3, _ := c14ExecOn(sp, "KA", c3)
		for _, k := range k3 {
			keys = append(keys, strings.Replace(k, "C14/", "C14/after-signing-key-replaced-on-same-instance/", 1))
		}
		if len(k3) > 0 {
			detail += " | after SetSPSigningKeyStore(KA) on the same instance: " + d3
			class = "DIFFERS"
		}
	}
	return keys, detail, class
}

func c14ExecOn(sp *saml2.SAMLServiceProvider, signer string, c c14Case) (keys []string, detail, class string) {
	relay := c.relay()
	fn := c14Funcs[c.Func]
	var out string
	var err error
	var docBytes string
	p := guard(func() {
		var doc *etree.Document
		switch fn {
		case "BuildAuthURL":
			out, err = sp.BuildAuthURL(relay)
		case "AuthRedirect":
			rec := httptest.NewRecorder()
			req := httptest.NewRequest(http.MethodGet, "https://sp.example.com/login", nil)
			err = sp.AuthRedirect(rec, req, relay)
			out = rec.Header().Get("Location")
			if err == nil && rec.Code != http.StatusFound {
				err = fmt.Errorf("status %d", rec.Code)
			}
		default:
			doc, err = c14Doc(sp, c14Docs[c.Doc])
			if err != nil {
				return
			}
			if c.Pad > 0 {
				doc.Root().CreateElement("pad").SetText(c14PadText(c.Pad))
			}
			docBytes, _ = doc.WriteToString()
			defer func() {
				// the caller's document is an input: it is still what it was
				if after, _ := doc.WriteToString(); err == nil && after != docBytes {
					err = fmt.Errorf("HARNESS-OBSERVED: the builder changed the document it was given (%d bytes before, %d after)", len(docBytes), len(after))
				}
			}()
			switch fn {
			case "BuildAuthURLFromDocument":
				out, err = sp.BuildAuthURLFromDocument(relay, doc)
			case "BuildAuthURLRedirect":
				out, err = sp.BuildAuthURLRedirect(relay, doc)
			case "BuildLogoutURLRedirect":
				out, err = sp.BuildLogoutURLRedirect(relay, doc)
			}
		}
	})
	detail = fmt.Sprintf("func=%s relay=%q doc=%s url=%s sign=%v alg=%q keys=%s | err=%v panic=%q url=%.200s", fn, relay[:min(len(relay), 40)], c14Docs[c.Doc], c14URLs[c.URL], c.Sign, c14Algs[c.Alg], c14Keys[c.Keys], err, p, out)
	kp := "C14/" + fn + "/"
	if p != "" {
		return []string{kp + "panic"}, detail, "panic"
	}
	if err != nil && c14Failing(c) && (c.Sign || fn == "BuildLogoutURLRedirect") {
		// a signature is due and the key cannot sign: an error is the right answer
		return nil, detail, "error-as-due/signing-key-cannot-sign"
	}
	if err != nil && strings.HasPrefix(err.Error(), "HARNESS-OBSERVED") {
		return []string{kp + "input-document-modified"}, detail, "DIFFERS"
	}
	if err != nil {
		return []string{kp + "error"}, detail, "ERROR"
	}
	bad := func(k string, f string, a ...interface{}) {
		keys = append(keys, kp+k)
		detail += " | " + fmt.Sprintf(f, a...)
	}
	base, params := recipient.SplitURL(out)
	wantBase, wantParams := recipient.SplitURL(c14URLs[c.URL])
	if base != wantBase {
		bad("endpoint-changed", "base %q != %q", base, wantBase)
	}
	// the binding's own parameters, exactly as they appear
	raw := map[string][]string{}
	var others []string
	for _, pr := range params {
		n, e := recipient.PctDecode(pr.RawName)
		if e != nil {
			bad("malformed-query", "name %q: %v", pr.RawName, e)
			continue
		}
		switch n {
		case "SAMLRequest", "RelayState", "SigAlg", "Signature":
			raw[n] = append(raw[n], pr.RawValue)
		default:
			v, e := recipient.PctDecode(pr.RawValue)
			if e != nil {
				bad("malformed-query", "value %q: %v", pr.RawValue, e)
			}
			others = append(others, n+"="+v)
		}
	}
	var wantOthers []string
	for _, pr := range wantParams {
		n, _ := recipient.PctDecode(pr.RawName)
		v, _ := recipient.PctDecode(pr.RawValue)
		wantOthers = append(wantOthers, n+"="+v)
	}
	sort.Strings(others)
	sort.Strings(wantOthers)
	if strings.Join(others, "\x00") != strings.Join(wantOthers, "\x00") {
		bad("idp-query-parameters-not-preserved", "others %q != %q", others, wantOthers)
	}
	if len(raw["SAMLRequest"]) != 1 {
		bad("SAMLRequest-count", "%d SAMLRequest parameters", len(raw["SAMLRequest"]))
		return dedupe(keys), detail, "DIFFERS"
	}
	reqDecoded, e := recipient.PctDecode(raw["SAMLRequest"][0])
	if e != nil {
		bad("SAMLRequest-malformed-escape", "%v", e)
	}
	msg, e := recipient.InflateB64(reqDecoded)
	if e != nil {
		bad("SAMLRequest-not-base64-raw-deflate", "%v", e)
	} else if docBytes != "" && string(msg) != docBytes {
		bad("SAMLRequest-differs-from-document", "inflated %d bytes != document %d bytes", len(msg), len(docBytes))
	} else if docBytes == "" {
		// the function built its own document: it must at least be a well-formed AuthnRequest for this SP
		n, pe := recipient.Parse(msg)
		if pe != nil || n.Local != "AuthnRequest" {
			bad("SAMLRequest-not-an-AuthnRequest", "%v", pe)
		} else if v, _ := n.Attr("Destination"); v != c14URLs[c.URL] {
			bad("SAMLRequest-wrong-destination", "Destination %q", v)
		}
	}
	// RelayState present exactly when non-empty, decoding to the value
	switch {
	case relay == "" && len(raw["RelayState"]) != 0:
		bad("RelayState-present-although-empty", "RelayState=%q", raw["RelayState"])
	case relay != "" && len(raw["RelayState"]) != 1:
		bad("RelayState-missing-or-repeated", "%d RelayState parameters", len(raw["RelayState"]))
	case relay != "":
		v, e := recipient.PctDecode(raw["RelayState"][0])
		if e != nil || v != relay {
			bad("RelayState-not-recovered", "decoded %q (%v)", v, e)
		}
	}
	// signature
	wantSig := fn == "BuildLogoutURLRedirect" || (fn == "BuildAuthURLRedirect" && c.Sign)
	if !wantSig {
		if len(raw["Signature"]) != 0 || len(raw["SigAlg"]) != 0 {
			bad("unexpected-signature", "Signature/SigAlg present although signing does not apply")
		}
	} else {
		if len(raw["Signature"]) != 1 || len(raw["SigAlg"]) != 1 {
			bad("signature-missing", "Signature x%d SigAlg x%d", len(raw["Signature"]), len(raw["SigAlg"]))
			return dedupe(keys), detail, "DIFFERS"
		}
		alg, _ := recipient.PctDecode(raw["SigAlg"][0])
		// the configured algorithm is honoured when it fits the key type; otherwise (unset, or an
		// RSA identifier with an EC key) the library's default hash is used with the key's own
		// algorithm family. Either way SigAlg must name the algorithm the signature verifies under.
		ecKey := signer == "KE"
		wantAlg := c14Algs[c.Alg]
		switch {
		case wantAlg == "" && ecKey:
			wantAlg = dsig.ECDSASHA256SignatureMethod
		case wantAlg == "":
			wantAlg = dsig.RSASHA256SignatureMethod
		case ecKey != strings.Contains(wantAlg, "ecdsa"):
			wantAlg = "" // incompatible configuration: only consistency is required
		}
		if wantAlg != "" && alg != wantAlg {
			bad("SigAlg-differs-from-configured", "SigAlg %q want %q", alg, wantAlg)
		}
		if ecKey != strings.Contains(alg, "ecdsa") {
			bad("SigAlg-names-another-key-family-than-the-signing-key", "SigAlg %q with EC key=%v", alg, ecKey)
		}
		signed := "SAMLRequest=" + raw["SAMLRequest"][0]
		if len(raw["RelayState"]) == 1 {
			signed += "&RelayState=" + raw["RelayState"][0]
		}
		signed += "&SigAlg=" + raw["SigAlg"][0]
		sigB64, _ := recipient.PctDecode(raw["Signature"][0])
		sig, e := base64.StdEncoding.DecodeString(sigB64)
		if e != nil {
			bad("Signature-not-base64", "%v", e)
		}
		reported, rerr := sp.GetSigningCertBytes()
		if rerr != nil {
			bad("no-reported-signing-certificate", "%v", rerr)
			return dedupe(keys), detail, "DIFFERS"
		}
		if string(reported) != string(world.Cert(signer).Raw) {
			bad("reported-certificate-is-not-the-configured-signing-key", "")
		}
		cert, _ := x509.ParseCertificate(reported)
		var h crypto.Hash
		var digest []byte
		switch alg {
		case dsig.RSASHA1SignatureMethod, dsig.ECDSASHA1SignatureMethod:
			d := sha1.Sum([]byte(signed))
			h, digest = crypto.SHA1, d[:]
		case dsig.RSASHA512SignatureMethod, dsig.ECDSASHA512SignatureMethod:
			d := sha512.Sum512([]byte(signed))
			h, digest = crypto.SHA512, d[:]
		default:
			d := sha256.Sum256([]byte(signed))
			h, digest = crypto.SHA256, d[:]
		}
		var verr error
		switch pk := cert.PublicKey.(type) {
		case *rsa.PublicKey:
			verr = rsa.VerifyPKCS1v15(pk, h, digest, sig)
		case *ecdsa.PublicKey:
			if !ecdsa.VerifyASN1(pk, digest, sig) {
				verr = fmt.Errorf("ecdsa verification failed")
			}
		}
		if verr != nil {
			bad("signature-does-not-verify-over-the-query-octets", "%v over %q...", verr, signed[:min(len(signed), 60)])
		}
	}
	if len(keys) > 0 {
		return dedupe(keys), detail, "DIFFERS"
	}
	if wantSig {
		return nil, detail, "faithful/signed"
	}
	return nil, detail, "faithful/unsigned"
}

func c14Replay(raw json.RawMessage) ([]string, string) {
	var c c14Case
	if err := json.Unmarshal(raw, &c); err != nil {
		return nil, err.Error()
	}
	k, d, _ := c14Exec(c)
	return k, d
}

func c14Run(r *mc.Run) {
	r.Rule = "full product relay state(22) x document(6, incl. one that already carries an enveloped signature; the document must be unchanged afterwards; one with a declaration, comments and a processing instruction around the root) x IdP URL(5: no query, one parameter, repeated and escaped parameters, escaped path, empty-valued and valueless parameters) x function(5) x SignAuthnRequests(2) x algorithm(4: unset, rsa-sha1, rsa-sha512, ecdsa-sha256) x key configuration(6, incl. a signing key in the field next to an encryption key given through the setter, a P-256 signing key with every algorithm setting), plus relay states assembled from every sequence of 2 (quick) / 2-3 (thorough) of 23 query-syntax fragments through the two signing redirect builders; oracle = hand-split raw query (no net/url), strict percent-decoding, base64 + raw inflate, PKCS#1 v1.5 / ECDSA verification with the reported certificate over SAMLRequest=..[&RelayState=..]&SigAlg=.. assembled from the raw values as they appear; each case is followed on the same instance by a second URL (other relay state, document and IdP endpoint) and, for RSA signers, by a third one after the signing key was replaced through SetSPSigningKeyStore. non-trivial = a URL was produced and decoded; distinct = distinct case"
	var cases []c14Case
	mc.Enumerate(-1, r.Expired, func(ch *mc.Chooser) {
		c := c14Case{}
		c.Func = ch.Choose("func", len(c14Funcs))
		c.Relay = ch.Choose("relay", len(c14Relay))
		c.URL = ch.Choose("url", len(c14URLs))
		c.Sign = ch.Bool("sign")
		c.Alg = ch.Choose("alg", len(c14Algs))
		c.Keys = ch.Choose("keys", len(c14Keys))
		fn := c14Funcs[c.Func]
		if fn != "BuildAuthURL" && fn != "AuthRedirect" {
			c.Doc = ch.Choose("doc", len(c14Docs))
		}
		cases = append(cases, c)
	})
	// large documents
	nPad := 0
	for fn := range c14Funcs {
		if c14Funcs[fn] == "BuildAuthURL" || c14Funcs[fn] == "AuthRedirect" {
			continue
		}
		for _, pad := range c14Pads {
			for _, sign := range []bool{false, true} {
				cases = append(cases, c14Case{Func: fn, Relay: 1 + pad%3, Doc: pad % 2, URL: pad % len(c14URLs), Sign: sign, Pad: pad})
				nPad++
			}
		}
	}
	r.Set("large_document_cases", nPad)
	for fn := range c14Funcs {
		for bind := 1; bind <= 2; bind++ {
			for _, sign := range []bool{false, true} {
				for _, keys := range []int{0, 3} {
					for doc := 0; doc < 2; doc++ {
						for _, relay := range []int{0, 1} {
							cases = append(cases, c14Case{Func: fn, Relay: relay, Doc: doc, URL: (fn + doc) % len(c14URLs), Sign: sign, Keys: keys, Bind: bind})
						}
					}
				}
			}
		}
	}
	// relay states assembled from fragments: every sequence of 2 (quick) / 2-3 (thorough), through
	// the two signing redirect builders
	maxF := 2
	if r.Thorough() {
		maxF = 3
	}
	n0 := len(cases)
	var rec func(prefix []int)
	rec = func(prefix []int) {
		if len(prefix) >= 2 {
			for _, fn := range []int{2, 3} {
				cases = append(cases, c14Case{Func: fn, Frags: append([]int(nil), prefix...), URL: len(prefix) % len(c14URLs), Sign: true, Doc: fn - 2})
			}
		}
		if len(prefix) == maxF {
			return
		}
		for f := range c14Fragments {
			rec(append(prefix, f))
		}
	}
	rec(nil)
	r.Set("fragment_sequences", (len(cases)-n0)/2)
	r.State(len(cases))
	r.Par(len(cases), func(i int) {
		c := cases[i]
		keys, detail, class := c14Exec(c)
		r.Eval(1)
		r.Transition(1)
		r.Bucket(class)
		if strings.HasPrefix(class, "faithful") || class == "DIFFERS" {
			r.Nontrivial(fmt.Sprintf("%+v", c))
		}
		if i%2503 == 0 {
			r.Sample(map[string]interface{}{"case": c, "observed": detail[:min(len(detail), 500)]})
		}
		for _, k := range keys {
			r.Violation(k, detail[:min(len(detail), 1500)], c)
		}
	})
}

func init() {
	register("C14", &check{run: c14Run, replay: c14Replay, quick: 300 * time.Second, thor: 900 * time.Second})
}
