package main

import (
	"bytes"
	"compress/flate"
	"encoding/xml"
	"io"
)

func inflate(b []byte) ([]byte, error) {
	return io.ReadAll(flate.NewReader(bytes.NewReader(b)))
}

func xmlUnmarshal(b []byte, v interface{}) error { return xml.Unmarshal(b, v) }
