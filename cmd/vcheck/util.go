package main

import (
	"bytes"
	"compress/flate"
	"encoding/xml"
	"fmt"
	"io"
	"reflect"
	"sort"
	"strings"
)

func inflate(b []byte) ([]byte, error) {
	return io.ReadAll(flate.NewReader(bytes.NewReader(b)))
}

func xmlUnmarshal(b []byte, v interface{}) error { return xml.Unmarshal(b, v) }

// scribbleDeep overwrites, in place, everything the holder of a result can write to: strings,
// numbers and booleans in every exported field, every element of every slice (without
// appending, so that a shared backing array is written through) and every map entry.
func scribbleDeep(v reflect.Value, depth int, seen map[uintptr]bool) {
	if depth > 14 || !v.IsValid() {
		return
	}
	switch v.Kind() {
	case reflect.Ptr:
		if v.IsNil() || seen[v.Pointer()] {
			return
		}
		seen[v.Pointer()] = true
		scribbleDeep(v.Elem(), depth+1, seen)
	case reflect.Interface:
		if !v.IsNil() {
			scribbleDeep(v.Elem(), depth+1, seen)
		}
	case reflect.Struct:
		for i := 0; i < v.NumField(); i++ {
			if v.Type().Field(i).PkgPath != "" {
				continue // unexported
			}
			scribbleDeep(v.Field(i), depth+1, seen)
		}
	case reflect.Slice, reflect.Array:
		for i := 0; i < v.Len(); i++ {
			scribbleDeep(v.Index(i), depth+1, seen)
		}
	case reflect.Map:
		for _, k := range v.MapKeys() {
			v.SetMapIndex(k, reflect.Zero(v.Type().Elem()))
		}
	case reflect.String:
		if v.CanSet() {
			v.SetString("scribbled")
		}
	case reflect.Bool:
		if v.CanSet() {
			v.SetBool(!v.Bool())
		}
	case reflect.Int, reflect.Int8, reflect.Int16, reflect.Int32, reflect.Int64:
		if v.CanSet() {
			v.SetInt(-7)
		}
	case reflect.Uint, reflect.Uint8, reflect.Uint16, reflect.Uint32, reflect.Uint64:
		if v.CanSet() {
			v.SetUint(0x58)
		}
	}
}

// copyConfig assigns every exported setting of src to dst except the key-store fields (an
// operator reconfiguring a provider that is already in use); unexported state stays with dst.
func copyConfig(dst, src interface{}) {
	d, s := reflect.ValueOf(dst).Elem(), reflect.ValueOf(src).Elem()
	for i := 0; i < d.NumField(); i++ {
		ft := d.Type().Field(i)
		if ft.PkgPath != "" || ft.Name == "SPKeyStore" || ft.Name == "SPSigningKeyStore" {
			continue
		}
		d.Field(i).Set(s.Field(i))
	}
}

// snapshot renders the configuration of the SP deeply (unexported fields included); the
// cached signing context, the lock and the clock are left out: creating the context lazily is
// the one permitted change.
func snapshot(v reflect.Value, depth int, seen map[uintptr]bool, sb *strings.Builder) {
	if depth > 12 {
		sb.WriteString("...")
		return
	}
	switch v.Kind() {
	case reflect.Ptr:
		if v.IsNil() {
			sb.WriteString("nil")
			return
		}
		if seen[v.Pointer()] {
			sb.WriteString("@seen")
			return
		}
		seen[v.Pointer()] = true
		sb.WriteString("&")
		snapshot(v.Elem(), depth+1, seen, sb)
	case reflect.Interface:
		if v.IsNil() {
			sb.WriteString("nil")
			return
		}
		sb.WriteString(v.Elem().Type().String() + ":")
		snapshot(v.Elem(), depth+1, seen, sb)
	case reflect.Struct:
		t := v.Type()
		if t.String() == "big.Int" || t.String() == "time.Time" || t.String() == "x509.Certificate" {
			// value types with internal pointers: identity by printed fields would be enormous;
			// certificates and keys are compared through their raw / numeric parts below
		}
		sb.WriteString(t.String() + "{")
		for i := 0; i < v.NumField(); i++ {
			name := t.Field(i).Name
			if name == "signingContext" || name == "signingContextMu" || name == "Clock" {
				continue
			}
			sb.WriteString(name + ":")
			snapshot(v.Field(i), depth+1, seen, sb)
			sb.WriteString(",")
		}
		sb.WriteString("}")
	case reflect.Slice, reflect.Array:
		if v.Kind() == reflect.Slice && v.IsNil() {
			sb.WriteString("nil[]")
			return
		}
		if v.Type().Elem().Kind() == reflect.Uint8 {
			b := make([]byte, v.Len())
			for i := range b {
				b[i] = byte(v.Index(i).Uint())
			}
			fmt.Fprintf(sb, "%x", b)
			return
		}
		sb.WriteString("[")
		for i := 0; i < v.Len(); i++ {
			snapshot(v.Index(i), depth+1, seen, sb)
			sb.WriteString(",")
		}
		sb.WriteString("]")
	case reflect.Map:
		keys := v.MapKeys()
		ss := []string{}
		for _, k := range keys {
			var kb, vb strings.Builder
			snapshot(k, depth+1, seen, &kb)
			snapshot(v.MapIndex(k), depth+1, seen, &vb)
			ss = append(ss, kb.String()+"="+vb.String())
		}
		sort.Strings(ss)
		sb.WriteString("map[" + strings.Join(ss, ",") + "]")
	case reflect.String:
		fmt.Fprintf(sb, "%q", v.String())
	case reflect.Bool:
		fmt.Fprint(sb, v.Bool())
	case reflect.Int, reflect.Int8, reflect.Int16, reflect.Int32, reflect.Int64:
		fmt.Fprint(sb, v.Int())
	case reflect.Uint, reflect.Uint8, reflect.Uint16, reflect.Uint32, reflect.Uint64, reflect.Uintptr:
		fmt.Fprint(sb, v.Uint())
	case reflect.Float32, reflect.Float64:
		fmt.Fprint(sb, v.Float())
	case reflect.Func, reflect.Chan, reflect.UnsafePointer:
		fmt.Fprint(sb, v.IsNil())
	default:
		sb.WriteString(v.Kind().String())
	}
}

// snapshotOf renders any value deeply (see snapshot).
func snapshotOf(v interface{}) string {
	var sb strings.Builder
	snapshot(reflect.ValueOf(v), 0, map[uintptr]bool{}, &sb)
	return sb.String()
}
