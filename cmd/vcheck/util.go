package main

import (
	"bytes"
	"compress/flate"
	"encoding/xml"
	"io"
	"reflect"
)

func inflate(b []byte) ([]byte, error) {
	return io.ReadAll(flate.NewReader(bytes.NewReader(b)))
}

func xmlUnmarshal(b []byte, v interface{}) error { return xml.Unmarshal(b, v) }

// scribbleDeep overwrites, in place, everything the holder of a result can write to: strings,
// numbers and booleans in every exported field, every element of every slice (without
// appending, so that a shared backing array is written through) and every map entry.
func scribbleDeep(v reflect.Value, depth int, seen map[uintptr]bool) {
	if depth > 14 || !v.IsValid() {
		return
	}
	switch v.Kind() {
	case reflect.Ptr:
		if v.IsNil() || seen[v.Pointer()] {
			return
		}
		seen[v.Pointer()] = true
		scribbleDeep(v.Elem(), depth+1, seen)
	case reflect.Interface:
		if !v.IsNil() {
			scribbleDeep(v.Elem(), depth+1, seen)
		}
	case reflect.Struct:
		for i := 0; i < v.NumField(); i++ {
			if v.Type().Field(i).PkgPath != "" {
				continue // unexported
			}
			scribbleDeep(v.Field(i), depth+1, seen)
		}
	case reflect.Slice, reflect.Array:
		for i := 0; i < v.Len(); i++ {
			scribbleDeep(v.Index(i), depth+1, seen)
		}
	case reflect.Map:
		for _, k := range v.MapKeys() {
			v.SetMapIndex(k, reflect.Zero(v.Type().Elem()))
		}
	case reflect.String:
		if v.CanSet() {
			v.SetString("scribbled")
		}
	case reflect.Bool:
		if v.CanSet() {
			v.SetBool(!v.Bool())
		}
	case reflect.Int, reflect.Int8, reflect.Int16, reflect.Int32, reflect.Int64:
		if v.CanSet() {
			v.SetInt(-7)
		}
	case reflect.Uint, reflect.Uint8, reflect.Uint16, reflect.Uint32, reflect.Uint64:
		if v.CanSet() {
			v.SetUint(0x58)
		}
	}
}

// copyConfig assigns every exported setting of src to dst except the key-store fields (an
// operator reconfiguring a provider that is already in use); unexported state stays with dst.
func copyConfig(dst, src interface{}) {
	d, s := reflect.ValueOf(dst).Elem(), reflect.ValueOf(src).Elem()
	for i := 0; i < d.NumField(); i++ {
		ft := d.Type().Field(i)
		if ft.PkgPath != "" || ft.Name == "SPKeyStore" || ft.Name == "SPSigningKeyStore" {
			continue
		}
		d.Field(i).Set(s.Field(i))
	}
}
