package main

import (
	"bytes"
	"compress/flate"
	"io"
)

func inflate(b []byte) ([]byte, error) {
	return io.ReadAll(flate.NewReader(bytes.NewReader(b)))
}
