package main

import (
	"encoding/json"
	"fmt"
	"strings"
	"time"

	"verif/mc"
	"verif/world"
)

// livePass re-runs every stride-th case, in enumeration order and on ONE goroutine, with the
// service providers taken from long-lived instances (world live mode) instead of fresh ones,
// and requires the same verdict as the fresh-instance pass gave for that case. This turns the
// input enumeration into a call history on a live instance: state that a call leaves behind
// on the instance or in the package (caches, memoised clocks, pooled buffers) shows up as a
// difference. Budget-bounded; a cap is recorded as exhaustive:false.
func livePass(r *mc.Run, n int, stride int, budget time.Duration, exec func(i int) string, fresh []string) {
	if stride < 1 {
		stride = 1
	}
	deadline := time.Now().Add(budget)
	world.LiveBegin()
	defer world.LiveEnd()
	done := 0
	for i := 0; i < n; i += stride {
		if done%32 == 0 && (time.Now().After(deadline) || r.Expired()) {
			r.Cap(fmt.Sprintf("live-instance pass stopped by its budget after %d of %d cases", done, (n+stride-1)/stride))
			break
		}
		if changed := liveScribble(); changed != "" {
			r.Bucket("live-instance/HELD-RESULT-CHANGED")
			r.Violation(r.Prop+"/live-instance/result-handed-out-earlier-changed-by-a-later-call", fmt.Sprintf("before case #%d (stride %d): %s", i, stride, changed), liveCase{Live: true, Upto: i, Stride: stride, Tier: r.Tier, Held: true})
		}
		got := exec(i)
		done++
		r.Eval(1)
		if got != fresh[i] {
			r.Bucket("live-instance/DIFFERS")
			r.Violation(r.Prop+"/live-instance-differs-from-fresh-instance", fmt.Sprintf("case #%d (stride %d) judged on a long-lived instance after %d earlier calls: %s | on a fresh instance: %s", i, stride, done-1, short(got), short(fresh[i])), liveCase{Live: true, Upto: i, Stride: stride, Tier: r.Tier})
			continue
		}
		r.Bucket("live-instance/same")
	}
	r.Set("live_instance_pass", map[string]interface{}{"cases": done, "stride": stride})
}

func short(s string) string {
	if len(s) > 300 {
		return s[:300] + "..."
	}
	return s
}

type liveCase struct {
	Live   bool   `json:"live_pass"`
	Upto   int    `json:"upto"`
	Stride int    `json:"stride"`
	Tier   string `json:"tier"`
	Held   bool   `json:"held_result_changed,omitempty"`
}

// liveReplay re-runs a live pass up to the recorded case and reports whether it still differs.
// enumerate must rebuild the same case list the run used for that tier.
func liveReplay(raw json.RawMessage, prop string, n func(tier string) int, exec func(tier string, i int) string) ([]string, string, bool) {
	var lc liveCase
	if json.Unmarshal(raw, &lc) != nil || !lc.Live {
		return nil, "", false
	}
	// fresh verdict of the target case
	want := exec(lc.Tier, lc.Upto)
	world.LiveBegin()
	defer world.LiveEnd()
	var got string
	held := ""
	for i := 0; i <= lc.Upto && i < n(lc.Tier); i += lc.Stride {
		if c := liveScribble(); c != "" {
			held = c
		}
		if lc.Held && i == lc.Upto {
			break
		}
		got = exec(lc.Tier, i)
	}
	if lc.Held {
		if held != "" {
			return []string{prop + "/live-instance/result-handed-out-earlier-changed-by-a-later-call"}, held, true
		}
		return nil, "no held result changed on replay", true
	}
	if got != want {
		return []string{prop + "/live-instance-differs-from-fresh-instance"}, "live: " + short(got) + " | fresh: " + short(want), true
	}
	return nil, "no difference on replay", true
}

// sig is the comparable verdict of one case: finding keys + outcome class.
func sig(keys []string, class string) string { return class + " [" + strings.Join(keys, ",") + "]" }
