package main

import (
	"crypto/tls"
	"encoding/base64"
	"encoding/json"
	"fmt"
	"os"
	"os/exec"
	"strings"
	"time"

	"github.com/beevik/etree"
	saml2 "github.com/russellhaering/gosaml2"
	"github.com/russellhaering/gosaml2/types"

	"verif/idp"
	"verif/mc"
	"verif/world"
)

// C09 — every decoding entry point is total: any input yields a result or an error.
//
// E-FAULT: for each base message and each layer (base64 text, DEFLATE stream, XML bytes)
// every truncation offset, every single-bit flip (quick: two bits per byte) and a set of
// byte substitutions at every position; an attacker-built unsigned Response carrying an
// EncryptedAssertion with every ciphertext length 0..64 x content family x algorithm
// identifiers x key-transport variants; direct calls of the decryption routines; structure
// extremes in a sandboxed child process.

var c09Confs = []struct {
	Name string
	Conf world.SPConf
}{
	{"full", world.SPConf{Store: []string{"K1", "K3"}}},
	{"skip-signature", world.SPConf{Store: []string{"K1"}, SkipSig: true}},
	{"bare(empty store,no keys,nil clock)", world.SPConf{Store: []string{}, EncField: "-", NilClock: true}},
	{"custom key store without a certificate, encryption certificate validated", world.SPConf{Store: []string{"K1"}, PlainStores: true, EncCertState: "nocert", ValidateEncCert: true}},
	{"custom key store whose GetKeyPair fails", world.SPConf{Store: []string{"K1"}, PlainStores: true, EncCertState: "keystore-error"}},
	{"decompression limit configured (1 MiB)", world.SPConf{Store: []string{"K1", "K3"}, MaxSize: 1 << 20}},
	{"certificate store of a slice type", world.SPConf{Store: []string{"K1", "K3"}, SliceStore: true}},
}

var c09Entries = []string{"ValidateEncodedResponse", "RetrieveAssertionInfo", "DecodeUnverifiedBaseResponse", "DecodeUnverifiedLogoutResponse", "ValidateEncodedLogoutRequestPOST", "ValidateEncodedLogoutResponsePOST"}

// c09Call runs one entry point and reports a violation class ("" = total).
func c09Call(entry int, conf int, in string) (viol string, detail string) {
	return c09CallOn(c09Confs[conf].Conf.Build(), entry, in)
}

// c09CallOn runs one entry point on the given (possibly already used) instance.
func c09CallOn(sp *saml2.SAMLServiceProvider, entry int, in string) (viol string, detail string) {
	var resNil, errNil bool
	p := guard(func() {
		switch entry {
		case 0:
			r, err := sp.ValidateEncodedResponse(in)
			resNil, errNil = r == nil, err == nil
		case 1:
			r, err := sp.RetrieveAssertionInfo(in)
			resNil, errNil = r == nil, err == nil
		case 2:
			r, err := saml2.DecodeUnverifiedBaseResponse(in)
			resNil, errNil = r == nil, err == nil
		case 3:
			r, err := saml2.DecodeUnverifiedLogoutResponse(in)
			resNil, errNil = r == nil, err == nil
		case 4:
			r, err := sp.ValidateEncodedLogoutRequestPOST(in)
			resNil, errNil = r == nil, err == nil
		case 5:
			r, err := sp.ValidateEncodedLogoutResponsePOST(in)
			resNil, errNil = r == nil, err == nil
		}
	})
	switch {
	case p != "":
		return "panic", "panic: " + p
	case resNil && errNil:
		return "nil-result-and-nil-error", "returned (nil, nil)"
	case !resNil && !errNil:
		return "result-and-error", "returned both a result and an error"
	}
	return "", ""
}

type c09Case struct {
	Family string     `json:"family"`
	Entry  int        `json:"entry"`
	Conf   int        `json:"conf"`
	Input  string     `json:"input,omitempty"`
	Enc    *c09Enc    `json:"enc,omitempty"`
	Direct *c09Direct `json:"direct,omitempty"`
}

// ---------- (a) fault positions on genuine messages ----------

type c09Base struct {
	Name    string
	XML     []byte
	Deflate bool
	Entries []int // entry points of the message's own kind
}

func c09Bases() []c09Base {
	small := func(r *idp.ResponseSpec) {
		r.Assertions[0].AttrStatements = [][]idp.AttrSpec{{{Name: "uid", Values: []string{"alice"}}}}
	}
	var out []c09Base
	r1 := idp.DefaultResponse(1)
	small(&r1)
	r1.Sign = idp.SignSpec{Key: "K3"}
	out = append(out, c09Base{"response-signed", idp.Bytes(idp.BuildResponse(r1), idp.Layout{}), false, []int{0, 1, 2}})
	r2 := idp.DefaultResponse(1)
	small(&r2)
	r2.Assertions[0].Sign = idp.SignSpec{Key: "K3"}
	r2.Assertions[0].Encrypt = &idp.EncSpec{DataAlg: idp.AES128CBC}
	out = append(out, c09Base{"assertion-signed-encrypted", idp.Bytes(idp.BuildResponse(r2), idp.Layout{}), false, []int{0, 1, 2}})
	r3 := idp.DefaultResponse(1)
	small(&r3)
	r3.Assertions[0].Sign = idp.SignSpec{Key: "K3"}
	out = append(out, c09Base{"assertion-signed/deflate", idp.Bytes(idp.BuildResponse(r3), idp.Layout{}), true, []int{0, 1, 2}})
	l1 := idp.DefaultLogout("LogoutRequest")
	l1.Sign = idp.SignSpec{Key: "K3"}
	out = append(out, c09Base{"logout-request-signed", idp.Bytes(idp.BuildLogout(l1), idp.Layout{}), false, []int{4}})
	l2 := idp.DefaultLogout("LogoutResponse")
	out = append(out, c09Base{"logout-response-unsigned/deflate", idp.Bytes(idp.BuildLogout(l2), idp.Layout{}), true, []int{3, 5}})
	l3 := idp.DefaultLogout("LogoutResponse")
	l3.Sign = idp.SignSpec{Key: "K3"}
	out = append(out, c09Base{"logout-response-signed", idp.Bytes(idp.BuildLogout(l3), idp.Layout{}), false, []int{3, 5}})
	return out
}

var c09Subst = []byte{'<', '>', '&', '"', 0x00, 0xFF, '\'', '/', ':', '=', ']', ' '}

// c09Faults enumerates every faulted variant of layer bytes b; emit receives each variant.
func c09Faults(b []byte, bits []uint, emit func(kind string, pos int, v []byte)) {
	for n := 0; n < len(b); n++ {
		emit("truncate", n, b[:n])
	}
	for i := range b {
		for _, bit := range bits {
			v := append([]byte(nil), b...)
			v[i] ^= 1 << bit
			emit("bitflip", i, v)
		}
	}
	for i := range b {
		for _, s := range c09Subst {
			if b[i] == s {
				continue
			}
			v := append([]byte(nil), b...)
			v[i] = s
			emit("substitute", i, v)
		}
	}
}

// ---------- (b) attacker-built EncryptedAssertion ----------

type c09Enc struct {
	DataAlg   string `json:"data_alg"`
	Len       int    `json:"len"`
	Content   string `json:"content"` // "zeros", "valid-truncated", "last-byte", "zero-final-block", "ff"
	LastByte  int    `json:"last_byte"`
	LastPos   int    `json:"last_pos"`
	KeyAlg    string `json:"key_alg"`
	Digest    string `json:"digest"`
	KeyLen    int    `json:"key_len"`
	Placement string `json:"placement"`
	Recip     string `json:"recip"`
	Through   string `json:"through"` // "ValidateEncodedResponse" | "DecryptBytes" | "Decrypt"
}

var c09DataAlgs = []string{idp.AES128GCM, idp.AES192GCM, idp.AES256GCM, idp.AES128CBC, idp.AES256CBC, "http://www.w3.org/2001/04/xmlenc#tripledes-cbc", "urn:example:unknown", ""}
var c09KeyAlgs = []string{idp.OAEPMGF1P, idp.OAEP11, idp.RSA15, "urn:example:unknown-transport", "-"}
var c09Digests = []string{"", idp.EncDigSHA1, idp.EncDigSHA256, idp.EncDigSHA512, "urn:example:unknown-digest"}
var c09KeyLens = []int{16, 0, 5, 24, 32, 48}

func c09Cipher(e c09Enc) (sym []byte, ct []byte) {
	keyLen := e.KeyLen
	sym = make([]byte, keyLen)
	for i := range sym {
		sym[i] = byte(i*7 + 1)
	}
	valid := func(pt []byte) []byte {
		if keyLen != 16 && keyLen != 24 && keyLen != 32 {
			return make([]byte, 96)
		}
		alg := e.DataAlg
		if !strings.Contains(alg, "gcm") {
			alg = idp.AES128CBC
		}
		return idp.EncryptData(alg, sym, make([]byte, 16), pt, "")
	}
	pt := []byte(strings.Repeat("A", 40))
	switch e.Content {
	case "zeros":
		ct = make([]byte, e.Len)
	case "ff":
		ct = make([]byte, e.Len)
		for i := range ct {
			ct[i] = 0xff
		}
	case "valid-truncated":
		v := valid(pt)
		for len(v) < e.Len {
			v = append(v, v...)
		}
		ct = v[:e.Len]
	case "last-byte":
		// a well-formed CBC encryption of a plaintext whose final (padding-length) byte is LastByte
		if keyLen != 16 && keyLen != 24 && keyLen != 32 {
			return sym, make([]byte, e.Len)
		}
		blocks := e.Len/16 - 1
		if blocks < 1 {
			return sym, make([]byte, e.Len)
		}
		raw := make([]byte, blocks*16)
		for i := range raw {
			raw[i] = 'A'
		}
		raw[len(raw)-1] = byte(e.LastByte)
		ct = idp.RawCBC(sym, make([]byte, 16), raw)
	case "byte-then-zeros":
		// final plaintext block = LastPos filler bytes, then the byte LastByte, then zero bytes:
		// every position and value of the last non-zero byte (what remains after zero trimming)
		if keyLen != 16 && keyLen != 24 && keyLen != 32 {
			return sym, make([]byte, e.Len)
		}
		blocks := e.Len/16 - 1
		if blocks < 1 {
			return sym, make([]byte, e.Len)
		}
		raw := make([]byte, blocks*16)
		for i := 0; i < len(raw)-16+e.LastPos; i++ {
			raw[i] = 'A'
		}
		raw[len(raw)-16+e.LastPos] = byte(e.LastByte)
		ct = idp.RawCBC(sym, make([]byte, 16), raw)
	case "zero-final-block":
		if keyLen != 16 && keyLen != 24 && keyLen != 32 {
			return sym, make([]byte, e.Len)
		}
		blocks := e.Len/16 - 1
		if blocks < 1 {
			return sym, make([]byte, e.Len)
		}
		raw := make([]byte, blocks*16)
		for i := 0; i < len(raw)-16; i++ {
			raw[i] = 'A'
		}
		ct = idp.RawCBC(sym, make([]byte, 16), raw)
	}
	return sym, ct
}

func c09EncEl(e c09Enc) []byte {
	sym, ct := c09Cipher(e)
	spec := idp.EncSpec{DataAlg: e.DataAlg, KeyAlg: e.KeyAlg, Digest: e.Digest, Placement: e.Placement, RecipCert: e.Recip}
	if e.DataAlg == "" {
		spec.DataAlg = "-"
	}
	if e.KeyAlg == "-" {
		spec.KeyAlg = "-"
	}
	if len(sym) == 0 {
		sym = []byte{}
	}
	ea := idp.EncryptedAssertionEl(spec, sym, ct)
	r := idp.DefaultResponse(0)
	doc := idp.BuildResponse(r)
	doc.Root().AddChild(ea)
	return idp.Bytes(doc, idp.Layout{})
}

func c09EncExec(c c09Case) (viol, detail, class string) {
	e := *c.Enc
	xml := c09EncEl(e)
	fam := c09EncClass(e)
	switch e.Through {
	case "ValidateEncodedResponse":
		v, d := c09Call(0, c.Conf, idp.Encode(xml, false))
		return v, d, fam
	default:
		// decode the EncryptedAssertion the way the library does, then call the routine directly
		d := parseDoc(xml)
		var eaEl = allOf(d.Root(), idp.NSA, "EncryptedAssertion")[0]
		ea := &types.EncryptedAssertion{}
		nd := parseDoc(idp.StandaloneBytes(eaEl))
		b, _ := nd.WriteToBytes()
		if err := xmlUnmarshal(b, ea); err != nil {
			return "", "harness: cannot decode EncryptedAssertion: " + err.Error(), "undecodable"
		}
		cert := tls.Certificate{Certificate: [][]byte{world.Cert("KS").Raw}, PrivateKey: world.RSAKey("KS")}
		var resNil, errNil bool
		p := guard(func() {
			if e.Through == "Decrypt" {
				r, err := ea.Decrypt(&cert)
				resNil, errNil = r == nil, err == nil
			} else {
				r, err := ea.DecryptBytes(&cert)
				resNil, errNil = r == nil, err == nil
			}
		})
		switch {
		case p != "":
			return "panic", "panic: " + p, fam
		case resNil && errNil && e.Through == "Decrypt":
			return "nil-result-and-nil-error", "(nil, nil)", fam
		case !resNil && !errNil:
			return "result-and-error", "both", fam
		}
		return "", "", fam
	}
}

// c09EncClass names the ciphertext family (used in finding keys).
func c09EncClass(e c09Enc) string {
	mode := "other-alg"
	switch {
	case strings.Contains(e.DataAlg, "gcm"):
		mode = "gcm"
	case strings.Contains(e.DataAlg, "cbc"):
		mode = "cbc"
	}
	shape := e.Content
	switch mode {
	case "gcm":
		if e.Len < 12 {
			shape = "ciphertext-shorter-than-nonce"
		} else if e.Len < 28 {
			shape = "ciphertext-shorter-than-nonce+tag"
		}
	case "cbc":
		switch {
		case e.Len == 0:
			shape = "empty-ciphertext"
		case e.Len%16 != 0:
			shape = "not-multiple-of-block"
		case e.Len == 16:
			shape = "iv-only"
		case e.Content == "zero-final-block" || e.Content == "zeros":
			shape = e.Content
		case e.Content == "byte-then-zeros":
			switch {
			case e.LastByte == 0:
				shape = "all-zero-tail"
			case e.LastByte > (e.Len/16-2)*16+e.LastPos+1:
				shape = "pad-byte>data-left-after-zero-trimming"
			default:
				shape = "pad-byte-in-range-after-zero-trimming"
			}
		case e.Content == "last-byte":
			switch {
			case e.LastByte == 0:
				shape = "pad-byte=0"
			case e.LastByte > e.Len-16:
				shape = "pad-byte>length"
			case e.LastByte > 16:
				shape = "pad-byte>block"
			default:
				shape = "pad-byte-in-range"
			}
		}
	}
	return mode + "/" + shape
}

// ---------- (b') valid encrypted assertions at every placement ----------

type c09Placed struct{ name, enc string }

func c09Placements() []c09Placed {
	var out []c09Placed
	mk := func(name string, signedRoot bool, place func(root, ea *etree.Element)) {
		r := idp.DefaultResponse(1)
		r.Assertions[0].Sign = idp.SignSpec{Key: "K3"}
		doc := idp.BuildResponse(r)
		root := doc.Root()
		as := allOf(root, idp.NSA, "Assertion")[0]
		ea := idp.EncryptPlaintext(idp.StandaloneBytes(as), idp.EncSpec{})
		root.RemoveChild(as)
		place(root, ea)
		if signedRoot {
			idp.SignInPlace(root, idp.SignSpec{Key: "K3"})
			name += "/signed-root"
		}
		out = append(out, c09Placed{name, idp.Encode(idp.Bytes(doc, idp.Layout{}), false)})
	}
	// an EncryptedAssertion that decrypts cleanly to something that is not a document with a
	// root element (anyone can encrypt to the SP)
	for name, pt := range map[string]string{"empty": "", "whitespace": " \n\t ", "comment-only": "<!-- nothing -->", "prolog-only": "<?xml version=\"1.0\"?>\n", "text-only": "hello", "two-roots": "<a/><b/>"} {
		for _, alg := range []string{"", idp.AES128CBC} {
			r := idp.DefaultResponse(1)
			r.Assertions[0].Sign = idp.SignSpec{Key: "K3"}
			doc := idp.BuildResponse(r)
			doc.Root().AddChild(idp.EncryptPlaintext([]byte(pt), idp.EncSpec{DataAlg: alg}))
			n := "plaintext-" + name
			if alg != "" {
				n += "/cbc"
			}
			out = append(out, c09Placed{n, idp.Encode(idp.Bytes(doc, idp.Layout{}), false)})
		}
	}
	for _, signed := range []bool{false, true} {
		mk("direct-child", signed, func(root, ea *etree.Element) { root.AddChild(ea) })
		mk("twice", signed, func(root, ea *etree.Element) { root.AddChild(ea); root.AddChild(ea.Copy()) })
		for _, w := range wrapperKinds {
			w := w
			mk("inside-"+w, signed, func(root, ea *etree.Element) {
				wr := wrapper(w)
				wr.AddChild(ea)
				root.AddChild(wr)
			})
		}
		mk("inside-nested-element-named-like-the-root", signed, func(root, ea *etree.Element) {
			inner := &etree.Element{Space: root.Space, Tag: root.Tag}
			inner.AddChild(ea)
			wr := wrapper("Extensions")
			wr.AddChild(inner)
			root.AddChild(wr)
		})
		mk("inside-nested-element-named-like-the-root-directly", signed, func(root, ea *etree.Element) {
			inner := &etree.Element{Space: root.Space, Tag: root.Tag}
			inner.AddChild(ea)
			root.AddChild(inner)
		})
		mk("inside-an-assertion", signed, func(root, ea *etree.Element) {
			a := evilAssertion("_evil-1")
			a.AddChild(ea)
			root.AddChild(a)
		})
		mk("inside-encrypted-assertion-element", signed, func(root, ea *etree.Element) {
			outer := &etree.Element{Space: "saml", Tag: "EncryptedAssertion"}
			outer.CreateAttr("xmlns:saml", idp.NSA)
			outer.AddChild(ea)
			root.AddChild(outer)
		})
	}
	return out
}

// ---------- direct calls with odd certificates ----------

type c09Direct struct {
	Routine string `json:"routine"` // DecryptSymmetricKey | DecryptBytes
	Cert    string `json:"cert"`    // "no-certs", "ecdsa-key", "nil-key", "ok"
	KeyAlg  string `json:"key_alg"`
	Digest  string `json:"digest"`
	CV      string `json:"cipher_value"` // "", "not-base64", "short", "valid"
	X509    string `json:"x509"`         // "", "not-base64", "other", "match"
}

func c09DirectExec(d c09Direct) (viol, detail string) {
	var cert tls.Certificate
	switch d.Cert {
	case "no-certs":
		cert = tls.Certificate{PrivateKey: world.RSAKey("KS")}
	case "ecdsa-key":
		cert = tls.Certificate{Certificate: [][]byte{world.Cert("KS").Raw}, PrivateKey: world.Key("K3")}
	case "nil-key":
		cert = tls.Certificate{Certificate: [][]byte{world.Cert("KS").Raw}}
	case "short-cert":
		cert = tls.Certificate{Certificate: [][]byte{{1, 2, 3}}, PrivateKey: world.RSAKey("KS")}
	case "empty-cert":
		cert = tls.Certificate{Certificate: [][]byte{{}}, PrivateKey: world.RSAKey("KS")}
	default:
		cert = tls.Certificate{Certificate: [][]byte{world.Cert("KS").Raw}, PrivateKey: world.RSAKey("KS")}
	}
	ek := types.EncryptedKey{}
	ek.EncryptionMethod.Algorithm = d.KeyAlg
	if d.Digest != "" {
		ek.EncryptionMethod.DigestMethod = &types.DigestMethod{Algorithm: d.Digest}
	}
	switch d.CV {
	case "not-base64":
		ek.CipherValue = "!!!"
	case "short":
		ek.CipherValue = base64.StdEncoding.EncodeToString([]byte{1, 2, 3})
	case "valid":
		ek.CipherValue = base64.StdEncoding.EncodeToString(idp.WrapKey("KS", d.KeyAlg, d.Digest, []byte("0123456789abcdef")))
	}
	switch d.X509 {
	case "not-base64":
		ek.X509Data = "!!!"
	case "short":
		ek.X509Data = base64.StdEncoding.EncodeToString([]byte{1, 2, 3})
	case "empty-after-decode":
		ek.X509Data = "===="
	case "other":
		ek.X509Data = base64.StdEncoding.EncodeToString(world.Cert("KX").Raw)
	case "match":
		ek.X509Data = base64.StdEncoding.EncodeToString(world.Cert("KS").Raw)
	}
	var resNil, errNil bool
	p := guard(func() {
		if d.Routine == "DecryptSymmetricKey" {
			r, err := ek.DecryptSymmetricKey(&cert)
			resNil, errNil = r == nil, err == nil
		} else {
			ea := &types.EncryptedAssertion{EncryptedKey: ek, CipherValue: base64.StdEncoding.EncodeToString(make([]byte, 48))}
			ea.EncryptionMethod.Algorithm = idp.AES128GCM
			r, err := ea.DecryptBytes(&cert)
			resNil, errNil = r == nil, err == nil
		}
	})
	switch {
	case p != "":
		return "panic", "panic: " + p
	case resNil && errNil:
		return "nil-result-and-nil-error", "(nil, nil)"
	case !resNil && !errNil:
		return "result-and-error", "both"
	}
	return "", ""
}

// ---------- (c) structure extremes, in a child process ----------

func c09Structure(kind string, n int) []byte {
	var sb strings.Builder
	switch kind {
	case "depth":
		sb.WriteString(`<samlp:Response xmlns:samlp="` + idp.NSP + `" ID="_d" Version="2.0">`)
		sb.WriteString(strings.Repeat("<a>", n))
		sb.WriteString(strings.Repeat("</a>", n))
		sb.WriteString(`</samlp:Response>`)
	case "width":
		sb.WriteString(`<samlp:Response xmlns:samlp="` + idp.NSP + `" ID="_w" Version="2.0">`)
		sb.WriteString(strings.Repeat("<a/>", n))
		sb.WriteString(`</samlp:Response>`)
	case "attributes":
		sb.WriteString(`<samlp:Response xmlns:samlp="` + idp.NSP + `" ID="_a" Version="2.0"`)
		for i := 0; i < n; i++ {
			fmt.Fprintf(&sb, ` a%d="v"`, i)
		}
		sb.WriteString(`/>`)
	case "text":
		sb.WriteString(`<samlp:Response xmlns:samlp="` + idp.NSP + `" ID="_t" Version="2.0">`)
		sb.WriteString(strings.Repeat("x", n))
		sb.WriteString(`</samlp:Response>`)
	case "namespaces":
		sb.WriteString(`<samlp:Response xmlns:samlp="` + idp.NSP + `" ID="_n" Version="2.0"`)
		for i := 0; i < n; i++ {
			fmt.Fprintf(&sb, ` xmlns:p%d="urn:x:%d"`, i, i)
		}
		sb.WriteString(`/>`)
	case "namespace-redeclarations":
		// n siblings, each declaring the same two prefixes again (what xs/xsi-typed attribute
		// values look like) plus one of its own
		sb.WriteString(`<samlp:Response xmlns:samlp="` + idp.NSP + `" ID="_r" Version="2.0">`)
		for i := 0; i < n; i++ {
			fmt.Fprintf(&sb, `<p%d:v xmlns:p%d="urn:x:%d" xmlns:xs="http://www.w3.org/2001/XMLSchema" xmlns:xsi="http://www.w3.org/2001/XMLSchema-instance" xsi:type="xs:string">v</p%d:v>`, i%7, i%7, i, i%7)
		}
		sb.WriteString(`</samlp:Response>`)
	case "nested-namespace-redeclarations":
		// a chain of n elements, each declaring the same prefix again for another namespace
		sb.WriteString(`<samlp:Response xmlns:samlp="` + idp.NSP + `" ID="_c" Version="2.0">`)
		for i := 0; i < n; i++ {
			fmt.Fprintf(&sb, `<p:e xmlns:p="urn:x:%d" xmlns:q%d="urn:y">`, i, i%3)
		}
		sb.WriteString(strings.Repeat("</p:e>", n))
		sb.WriteString(`</samlp:Response>`)
	case "default-namespaces-leaf-prefix":
		// default namespaces only; n childless elements each declare a prefix of their own
		sb.WriteString(`<Response xmlns="` + idp.NSP + `" ID="_l" Version="2.0">`)
		for i := 0; i < n; i++ {
			fmt.Fprintf(&sb, `<Issuer xmlns="%s" xmlns:x%d="urn:x:%d">https://idp.example.com/metadata</Issuer>`, idp.NSA, i, i)
		}
		sb.WriteString(`<Status><StatusCode Value="` + idp.StatusSuccess + `" xmlns:y="urn:y"/></Status></Response>`)
	case "signatures":
		sb.WriteString(`<samlp:Response xmlns:samlp="` + idp.NSP + `" xmlns:ds="` + idp.NSDS + `" ID="_s" Version="2.0">`)
		sb.WriteString(strings.Repeat(`<ds:Signature><ds:SignedInfo/><ds:SignatureValue/></ds:Signature>`, n))
		sb.WriteString(`</samlp:Response>`)
	}
	return []byte(sb.String())
}

// c09StructChild is the body of the child process: it runs every entry point on one
// structure-extreme input and prints a line per entry point.
func c09StructChild(kind string, n int) {
	in := idp.Encode(c09Structure(kind, n), n > 200000)
	for e := range c09Entries {
		for cf := range c09Confs {
			v, d := c09Call(e, cf, in)
			if v != "" {
				fmt.Printf("C09CHILD violation entry=%d conf=%d %s %s\n", e, cf, v, d)
			}
		}
	}
	fmt.Println("C09CHILD done")
}

func c09RunStruct(r *mc.Run, kind string, n int, timeout time.Duration) {
	self, _ := os.Executable()
	cmd := exec.Command("/bin/bash", "-c", fmt.Sprintf("ulimit -v 8000000; exec timeout %d %s c09-struct %s %d", int(timeout.Seconds()), self, kind, n))
	out, err := cmd.CombinedOutput()
	s := string(out)
	r.Eval(len(c09Entries) * len(c09Confs))
	c := c09Case{Family: fmt.Sprintf("structure/%s=%d", kind, n)}
	switch {
	case strings.Contains(s, "C09CHILD done") && !strings.Contains(s, "C09CHILD violation"):
		r.Bucket("structure/returned")
	case strings.Contains(s, "C09CHILD violation"):
		line := s[strings.Index(s, "C09CHILD violation"):]
		if i := strings.Index(line, "\n"); i > 0 {
			line = line[:i]
		}
		r.Bucket("structure/VIOLATION")
		r.Violation(fmt.Sprintf("C09/structure/%s/panic-or-nil-nil", kind), line, c)
	case strings.Contains(s, "fatal error") || strings.Contains(s, "goroutine stack exceeds"):
		r.Bucket("structure/FATAL")
		r.Violation(fmt.Sprintf("C09/structure/%s/fatal-runtime-error", kind), fmt.Sprintf("%s=%d: child died: %.300s", kind, n, s), c)
	default:
		// timeout (exit 124) or killed: slow is not a violation of this property; recorded as a cap
		r.Bucket("structure/timeout")
		r.Cap(fmt.Sprintf("structure %s=%d did not finish within %s (err=%v); not judged", kind, n, timeout, err))
	}
}

func c09Replay(raw json.RawMessage) ([]string, string) {
	var c c09Case
	if err := json.Unmarshal(raw, &c); err != nil {
		return nil, err.Error()
	}
	switch {
	case c.Enc != nil:
		v, d, fam := c09EncExec(c)
		if v == "" {
			return nil, d
		}
		return []string{fmt.Sprintf("C09/%s/%s/%s", c.Enc.Through, fam, v)}, d
	case c.Direct != nil:
		v, d := c09DirectExec(*c.Direct)
		if v == "" {
			return nil, d
		}
		return []string{fmt.Sprintf("C09/%s/cert=%s/%s", c.Direct.Routine, c.Direct.Cert, v)}, d
	case strings.HasPrefix(c.Family, "repeated-delivery/"):
		return c09Repeated(c)
	case strings.HasPrefix(c.Family, "structure/"):
		// replayed in-process (may kill the replay process for fatal errors: that is the finding)
		var kind string
		var n int
		fmt.Sscanf(strings.Replace(strings.TrimPrefix(c.Family, "structure/"), "=", " ", 1), "%s %d", &kind, &n)
		in := idp.Encode(c09Structure(kind, n), n > 200000)
		var keys []string
		for e := range c09Entries {
			for cf := range c09Confs {
				if v, _ := c09Call(e, cf, in); v != "" {
					keys = append(keys, fmt.Sprintf("C09/structure/%s/panic-or-nil-nil", kind))
				}
			}
		}
		return keys, "in-process replay"
	default:
		v, d := c09Call(c.Entry, c.Conf, c.Input)
		if v == "" {
			return nil, d
		}
		return []string{fmt.Sprintf("C09/%s/%s/%s", c09Entries[c.Entry], c.Family, v)}, d
	}
}

// c09Repeated delivers the input three times to ONE instance (through both SSO entry points):
// a configuration whose key store fails, or a message that fails half-way, must leave the
// instance able to answer the next delivery with a result or an error.
func c09Repeated(c c09Case) ([]string, string) {
	sp := c09Confs[c.Conf].Conf.Build()
	var keys []string
	detail := ""
	for round := 0; round < 3; round++ {
		for _, e := range []int{0, 1} {
			if v, d := c09CallOn(sp, e, c.Input); v != "" {
				keys = append(keys, fmt.Sprintf("C09/%s/repeated-delivery/%s", c09Entries[e], v))
				detail += fmt.Sprintf(" | delivery %d through %s: %s", round+1, c09Entries[e], d)
			}
		}
	}
	return dedupe(keys), fmt.Sprintf("conf=%s%s", c09Confs[c.Conf].Name, detail)
}

func c09Run(r *mc.Run) {
	bits := []uint{0, 7}
	if r.Thorough() {
		bits = []uint{0, 1, 2, 3, 4, 5, 6, 7}
	}
	r.Level = "fault_enumeration"
	r.Rule = "(a) 6 base messages x 3 layers (base64 text, DEFLATE stream, XML bytes): every truncation offset, every single-bit flip (quick: bits 0 and 7 of every byte; thorough: all 8), 12 byte substitutions at every position, each fed to the entry points of its kind under 7 configurations (truncations: to all 6 entry points); (b) unsigned Response + EncryptedAssertion: 8 algorithm identifiers x every ciphertext length 0..64 x content families (zeros, 0xff, valid-truncated, every final plaintext byte 0..255, every position x value of the last non-zero byte of the final block, all-zero final block) with deviation-bounded key-transport / digest / key length / placement / recipient variants, through ValidateEncodedResponse and through DecryptBytes/Decrypt directly; every document one attacker edit (C01's operator menu) away from 8 genuine messages; an EncryptedAssertion that decrypts to a rootless plaintext (empty, whitespace, comment, prolog, text, two roots); a valid EncryptedAssertion at 11 placements (direct child, twice, 4 wrappers, nested elements named like the root, inside an assertion, inside another EncryptedAssertion) under signed and unsigned roots, each also delivered three times to one instance of every configuration (incl. a key store whose GetKeyPair fails); direct DecryptSymmetricKey/DecryptBytes calls with odd certificates; (c) structure extremes in a child process (depth, width, attribute count, text size, signature count, namespace prefixes declared on one element (31..2000), declared again on each of n siblings (8..30000) and on each element of a chain (12..5000)). non-trivial = the input passed base64 decoding (reached XML/DEFLATE processing) or reached the decryption routine; distinct = distinct input"
	r.Assume("a Go panic in the callee is observable by recover(); fatal runtime errors are observed as death of a child process")

	// (a)
	type job struct {
		fam  string
		in   string
		ents []int
	}
	var jobs []job
	for _, b := range c09Bases() {
		wire := b.XML
		if b.Deflate {
			wire = idp.Deflate(b.XML, 6)
		}
		b64 := []byte(base64.StdEncoding.EncodeToString(wire))
		all := []int{0, 1, 2, 3, 4, 5}
		add := func(layer string) func(kind string, pos int, v []byte) {
			return func(kind string, pos int, v []byte) {
				var in string
				switch layer {
				case "base64":
					in = string(v)
				case "deflate":
					in = base64.StdEncoding.EncodeToString(v)
				case "xml":
					if b.Deflate {
						in = base64.StdEncoding.EncodeToString(idp.Deflate(v, 6))
					} else {
						in = base64.StdEncoding.EncodeToString(v)
					}
				}
				ents := b.Entries
				if kind == "truncate" {
					ents = all
				}
				jobs = append(jobs, job{b.Name + "/" + layer + "/" + kind, in, ents})
			}
		}
		c09Faults(b64, bits[:1], add("base64"))
		if b.Deflate {
			c09Faults(wire, bits, add("deflate"))
		}
		c09Faults(b.XML, bits, add("xml"))
	}
	r.Set("fault_inputs", len(jobs))
	r.Par(len(jobs), func(i int) {
		j := jobs[i]
		for _, e := range j.ents {
			for cf := range c09Confs {
				v, d := c09Call(e, cf, j.in)
				r.Eval(1)
				if v != "" {
					r.Bucket("fault/VIOLATION")
					r.Violation(fmt.Sprintf("C09/%s/%s/%s", c09Entries[e], j.fam, v), d, c09Case{Family: j.fam, Entry: e, Conf: cf, Input: j.in})
				}
			}
		}
		r.Bucket("fault/" + j.fam[strings.Index(j.fam, "/")+1:])
		if _, err := base64.StdEncoding.DecodeString(j.in); err == nil {
			r.Nontrivial(j.in)
		}
		if i%20011 == 0 {
			r.Sample(map[string]interface{}{"family": j.fam, "input_prefix": j.in[:min(len(j.in), 80)], "input_len": len(j.in)})
		}
	})

	// (b)
	var encs []c09Enc
	for _, alg := range c09DataAlgs {
		for ln := 0; ln <= 64; ln++ {
			for _, content := range []string{"zeros", "ff", "valid-truncated", "zero-final-block"} {
				encs = append(encs, c09Enc{DataAlg: alg, Len: ln, Content: content, KeyAlg: idp.OAEPMGF1P, KeyLen: 16})
			}
		}
		for _, ln := range []int{32, 48, 64} {
			for lb := 0; lb < 256; lb++ {
				encs = append(encs, c09Enc{DataAlg: alg, Len: ln, Content: "last-byte", LastByte: lb, KeyAlg: idp.OAEPMGF1P, KeyLen: 16})
				if strings.Contains(alg, "cbc") {
					for pos := 0; pos < 16; pos++ {
						if ln != 32 && pos%5 != 0 && !r.Thorough() {
							continue
						}
						encs = append(encs, c09Enc{DataAlg: alg, Len: ln, Content: "byte-then-zeros", LastByte: lb, LastPos: pos, KeyAlg: idp.OAEPMGF1P, KeyLen: 16})
					}
				}
			}
		}
	}
	// key-transport side: deviation-bounded around a short GCM and a short CBC ciphertext
	bound := 2
	if r.Thorough() {
		bound = 3
	}
	for _, seed := range []c09Enc{{DataAlg: idp.AES128GCM, Len: 5, Content: "zeros"}, {DataAlg: idp.AES128CBC, Len: 16, Content: "zeros"}, {DataAlg: idp.AES256GCM, Len: 40, Content: "valid-truncated"}} {
		seed := seed
		mc.Enumerate(bound, r.Expired, func(ch *mc.Chooser) {
			e := seed
			e.KeyAlg = c09KeyAlgs[ch.Choose("keyalg", len(c09KeyAlgs))]
			e.Digest = c09Digests[ch.Choose("digest", len(c09Digests))]
			e.KeyLen = c09KeyLens[ch.Choose("keylen", len(c09KeyLens))]
			e.Placement = []string{"", "detached", "nokey"}[ch.Choose("placement", 3)]
			e.Recip = []string{"", "KS", "KX", "garbage"}[ch.Choose("recip", 4)]
			encs = append(encs, e)
		})
	}
	var encCases []c09Case
	for _, e := range encs {
		for _, through := range []string{"DecryptBytes", "Decrypt", "ValidateEncodedResponse"} {
			e := e
			e.Through = through
			encCases = append(encCases, c09Case{Family: "encrypted", Conf: 0, Enc: &e})
		}
	}
	r.Set("ciphertext_cases", len(encCases))
	r.Par(len(encCases), func(i int) {
		c := encCases[i]
		v, d, fam := c09EncExec(c)
		r.Eval(1)
		r.Nontrivial(fmt.Sprintf("%+v", *c.Enc))
		if v != "" {
			r.Bucket("ciphertext/VIOLATION/" + fam)
			r.Violation(fmt.Sprintf("C09/%s/%s/%s", c.Enc.Through, fam, v), fmt.Sprintf("%+v: %s", *c.Enc, d), c)
		} else {
			r.Bucket("ciphertext/total/" + fam)
		}
		if i%4001 == 0 {
			r.Sample(map[string]interface{}{"case": c.Enc})
		}
	})

	// (b') a VALID EncryptedAssertion (decrypts to a well-formed assertion) at every placement:
	// direct child, inside wrappers, inside a nested element named like the root, inside an
	// assertion, inside a signature, twice; under a signed and an unsigned root
	for pi, in := range c09Placements() {
		for e := 0; e < 2; e++ {
			for cf := range c09Confs {
				v, d := c09Call(e, cf, in.enc)
				r.Eval(1)
				r.Nontrivial(in.name + fmt.Sprint(e, cf))
				if v != "" {
					r.Bucket("placement/VIOLATION")
					r.Violation(fmt.Sprintf("C09/%s/encrypted-assertion-placement/%s/%s", c09Entries[e], in.name, v), d, c09Case{Family: "encrypted-assertion-placement/" + in.name, Entry: e, Conf: cf, Input: in.enc})
				} else {
					r.Bucket("placement/total")
				}
			}
		}
		_ = pi
		// the same message delivered three times to one instance of every configuration
		for cf := range c09Confs {
			c := c09Case{Family: "repeated-delivery/" + in.name, Conf: cf, Input: in.enc}
			keys, d := c09Repeated(c)
			r.Eval(6)
			r.Nontrivial("repeated/" + in.name + fmt.Sprint(cf))
			if len(keys) > 0 {
				r.Bucket("repeated-delivery/VIOLATION")
				for _, k := range keys {
					r.Violation(k, d, c)
				}
			} else {
				r.Bucket("repeated-delivery/total")
			}
		}
	}

	// (b'') every document one attacker edit away from a genuine message (the operator menu of
	// the attacker transition system, C01), through every entry point
	{
		w := theAttWorld()
		var states []attState
		for _, m := range w.msgs {
			st := attState{XML: m.XML, Path: m.Name}
			states = append(states, st)
			for _, n := range successors(st, true) {
				states = append(states, n.(attState))
			}
		}
		r.Set("attacker_edit_states", len(states))
		r.Par(len(states), func(i int) {
			st := states[i]
			in := st.Encoded()
			for e := range c09Entries {
				for cf := range c09Confs {
					v, d := c09Call(e, cf, in)
					r.Eval(1)
					if v != "" {
						r.Bucket("attacker-edit/VIOLATION")
						op := st.Path
						if k := strings.LastIndex(op, " > "); k >= 0 {
							op = op[k+3:]
						}
						if k := strings.IndexAny(op, "[/="); k > 0 {
							op = op[:k]
						}
						r.Violation(fmt.Sprintf("C09/%s/attacker-edit/%s/%s", c09Entries[e], op, v), st.Path+": "+d, c09Case{Family: "attacker-edit/" + op, Entry: e, Conf: cf, Input: in})
					}
				}
			}
			r.Bucket("attacker-edit/total")
			r.Nontrivial(in)
		})
	}

	// direct calls
	for _, routine := range []string{"DecryptSymmetricKey", "DecryptBytes"} {
		for _, cert := range []string{"ok", "no-certs", "ecdsa-key", "nil-key", "short-cert", "empty-cert"} {
			for _, ka := range []string{idp.OAEPMGF1P, idp.OAEP11, idp.RSA15, "", "urn:x"} {
				for _, dg := range []string{"", idp.EncDigSHA1, idp.EncDigSHA256, idp.EncDigSHA512, "urn:x"} {
					for _, cv := range []string{"", "not-base64", "short", "valid"} {
						for _, x := range []string{"", "not-base64", "other", "match", "short", "empty-after-decode"} {
							d := c09Direct{routine, cert, ka, dg, cv, x}
							v, det := c09DirectExec(d)
							r.Eval(1)
							if v != "" {
								r.Bucket("direct/VIOLATION")
								dd := d
								r.Violation(fmt.Sprintf("C09/%s/cert=%s/%s", routine, cert, v), fmt.Sprintf("%+v: %s", d, det), c09Case{Family: "direct", Direct: &dd})
							} else {
								r.Bucket("direct/total")
							}
						}
					}
				}
			}
		}
	}

	// (c)
	type st struct {
		kind string
		n    int
		to   time.Duration
	}
	structs := []st{{"depth", 10, 20 * time.Second}, {"depth", 1000, 20 * time.Second}, {"depth", 10001, 30 * time.Second}, {"width", 1000, 20 * time.Second}, {"width", 100000, 60 * time.Second},
		{"attributes", 10000, 60 * time.Second}, {"text", 4000000, 60 * time.Second}, {"namespaces", 2000, 60 * time.Second}, {"namespaces", 31, 20 * time.Second}, {"namespaces", 33, 20 * time.Second}, {"namespaces", 256, 20 * time.Second},
		{"namespace-redeclarations", 8, 20 * time.Second}, {"namespace-redeclarations", 11, 20 * time.Second}, {"namespace-redeclarations", 40, 20 * time.Second}, {"namespace-redeclarations", 90, 20 * time.Second}, {"namespace-redeclarations", 700, 20 * time.Second}, {"namespace-redeclarations", 30000, 60 * time.Second},
		{"default-namespaces-leaf-prefix", 1, 20 * time.Second}, {"default-namespaces-leaf-prefix", 3, 20 * time.Second}, {"default-namespaces-leaf-prefix", 40, 20 * time.Second},
		{"nested-namespace-redeclarations", 12, 20 * time.Second}, {"nested-namespace-redeclarations", 17, 20 * time.Second}, {"nested-namespace-redeclarations", 40, 20 * time.Second}, {"nested-namespace-redeclarations", 300, 20 * time.Second}, {"nested-namespace-redeclarations", 5000, 60 * time.Second},
		{"signatures", 300, 60 * time.Second}}
	if r.Thorough() {
		structs = append(structs, st{"depth", 100000, 120 * time.Second}, st{"depth", 700000, 400 * time.Second}, st{"width", 1000000, 200 * time.Second})
	}
	r.Set("structure_cases", len(structs))
	r.Par(len(structs), func(i int) { c09RunStruct(r, structs[i].kind, structs[i].n, structs[i].to) })
}

func init() {
	register("C09", &check{run: c09Run, replay: c09Replay, quick: 400 * time.Second, thor: 2400 * time.Second, level: "fault_enumeration"})
}
