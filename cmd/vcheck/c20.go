package main

import (
	"encoding/base64"
	"encoding/json"
	"fmt"
	"strings"
	"sync"
	"time"

	"github.com/beevik/etree"
	saml2 "github.com/russellhaering/gosaml2"
	"github.com/russellhaering/gosaml2/types"

	"verif/idp"
	"verif/mc"
	"verif/world"
)

// C20 — the unverified pre-decode agrees with what full validation later returns.
// Differential oracle, both sides real: whenever full validation accepts, the pre-decoder
// succeeds on the same string and reports the same ID, InResponseTo, Destination, Version
// and Issuer.

// shadowing / layout shapes applied to the root start tag and the Issuer of an otherwise
// acceptable message, after signing: on an unsigned root an attacker can produce all of them,
// on a signed root those that an exclusive-c14n signature does not cover.
var c20Shapes = []string{
	"prefixed-ID-before", "prefixed-ID-after", "prefixed-Destination-before", "prefixed-InResponseTo-after", "prefixed-Version-before",
	"duplicate-ID-evil-first", "duplicate-ID-evil-last", "duplicate-InResponseTo-evil-first",
	"two-issuers-evil-first", "two-issuers-evil-last", "foreign-ns-issuer-first", "nested-issuer-in-extensions-first",
	"issuer-with-comment", "issuer-cdata", "issuer-charref", "issuer-leading-trailing-space", "issuer-child-element",
	"inresponseto-charref", "inresponseto-newline", "inresponseto-cr", "inresponseto-tab", "inresponseto-spaces",
	"xml-decl", "comment-before-root", "pi-before-root", "single-quotes", "attr-order", "tag-whitespace", "bom",
	"default-ns-root", "root-prefix-redeclared-on-issuer",
	"remove-InResponseTo", "remove-Destination", "empty-Destination", "empty-issuer",
	"move-issuer-to-end", "second-issuer-at-end", "move-status-before-issuer",
	// an EncryptedAssertion (anyone can encrypt to the SP) whose plaintext is not an assertion
	// but another Issuer: whatever decryption splices into the tree must not reach the result
	"encrypted-issuer-before-issuer", "encrypted-issuer-after-issuer", "encrypted-issuer-at-end",
	// declarations of namespace prefixes nobody uses, named like the decoded attributes: an
	// exclusive-c14n signature does not cover them, so they can be added to a SIGNED root
	"xmlns-ID-after", "xmlns-Destination-after", "xmlns-InResponseTo-after", "xmlns-Version-after", "xmlns-ID-before",
	// the same, with the prefix also used by an element inside the enveloped Signature's KeyInfo
	// (a part of the message no digest covers)
	"xmlns-ID-used-in-keyinfo", "xmlns-Destination-used-in-keyinfo", "xmlns-InResponseTo-used-in-keyinfo",
}

var c20EncIssuerOnce sync.Once
var c20EncIssuerXML string

// c20EncIssuer is an EncryptedAssertion, encrypted to the SP's key, holding an Issuer element.
func c20EncIssuer() string {
	c20EncIssuerOnce.Do(func() {
		pt := []byte(`<saml:Issuer xmlns:saml="urn:oasis:names:tc:SAML:2.0:assertion">https://evil-idp.example.com/metadata</saml:Issuer>`)
		d := etree.NewDocument()
		d.SetRoot(idp.EncryptPlaintext(pt, idp.EncSpec{}))
		c20EncIssuerXML, _ = d.WriteToString()
	})
	return c20EncIssuerXML
}

type c20Case struct {
	Kind     string   `json:"kind"` // "Response" | "LogoutResponse"
	Genuine  *c08Case `json:"genuine,omitempty"`
	Shapes   []int    `json:"shapes,omitempty"`
	Signed   bool     `json:"root_signed,omitempty"` // the root carries the signature (exclusive c14n); shapes are applied after signing
	Deflate  bool     `json:"deflate,omitempty"`
	NoIssuer bool     `json:"no_idp_issuer,omitempty"` // SP without a configured IdP issuer (multi-IdP deployments)
	// AfterPoison k>0: first a delivery whose decoding fails (c10Poisons[k-1]) is made in the same
	// process, then this message is pre-decoded and validated
	AfterPoison int `json:"after_failed_delivery,omitempty"`
	preFirst    bool
	// Odd k>0 (shapes the IdP itself signs, applied BEFORE signing): c20Odd[k-1]
	Odd int `json:"idp_signed_oddity,omitempty"`
	// Stored k>0: the compressed presentation is hand-framed in stored blocks instead of
	// compress/flate's output: 1 the stream starts with a tab byte (padding bits of the header)
	// and the document ends in a line feed, so the stream ends in one; 2 starts with a space
	// byte, two blocks
	Stored int `json:"stored_block_framing,omitempty"`
	// Trail k>0: the encoded string is followed by c20Trails[k-1] (what a careless form decoder
	// or a truncated copy leaves behind)
	Trail int `json:"trailing_bytes_after_base64,omitempty"`
}

var c20Trails = []string{" ", "\t", "\x00", "%0A", "&RelayState=x", "=", "\n\n"}

// c20Odd: attributes in foreign namespaces named like the decoded ones, written by the IdP (they
// are inside whatever it signs). A verified element has its attributes in canonical order, the
// pre-decoders see document order: "a:" sorts before "b:" (namespace names urn:a, urn:b).
var c20Odd = []string{
	"a:ID-before-ID", "a:ID-after-ID", "b:ID-then-a:ID-after-ID", "b:ID-then-a:ID-before-ID",
	"a:Destination-before-Destination", "a:InResponseTo-before-InResponseTo", "a:Version-before-Version",
	"b:Destination-then-a:Destination-after-Destination",
	// only qualified ones, the (optional) SAML attribute itself is not there
	"b:InResponseTo-then-a:InResponseTo-without-InResponseTo", "a:InResponseTo-then-b:InResponseTo-without-InResponseTo",
}

func c20ApplyOdd(root *etree.Element, odd string) {
	decl := []etree.Attr{{Space: "xmlns", Key: "a", Value: "urn:a"}, {Space: "xmlns", Key: "b", Value: "urn:b"}}
	evil := func(prefix, name string) etree.Attr {
		v := "evil-" + prefix
		if name == "Destination" {
			v = "https://evil-" + prefix + ".example.com/acs"
		}
		if name == "Version" {
			v = "1.1"
		}
		return etree.Attr{Space: prefix, Key: name, Value: v}
	}
	parts := strings.Split(odd, "-")
	// the target attribute is the last word; the qualified ones are listed before "before"/"after"
	target := parts[len(parts)-1]
	var q []etree.Attr
	for _, w := range parts {
		if i := strings.Index(w, ":"); i > 0 {
			q = append(q, evil(w[:i], w[i+1:]))
		}
	}
	var out []etree.Attr
	out = append(out, decl...)
	before := strings.Contains(odd, "-before-")
	without := strings.Contains(odd, "-without-")
	for _, a := range root.Attr {
		if without && a.Space == "" && a.Key == target {
			out = append(out, q...)
			continue
		}
		if a.Space == "" && a.Key == target && before {
			out = append(out, q...)
		}
		out = append(out, a)
		if a.Space == "" && a.Key == target && !before {
			out = append(out, q...)
		}
	}
	root.Attr = out
}

func c20StoredFraming(doc []byte, shape int) []byte {
	if shape == 1 {
		d := append(append([]byte{}, doc...), '\n')
		return c12StoredBlock(true, 0x08, d[:min(len(d), 65535)])
	}
	h := min(60, len(doc))
	rest := doc[h:]
	return append(c12StoredBlock(false, 0x20, doc[:h]), c12StoredBlock(true, 0, rest[:min(len(rest), 65535)])...)
}

func c20Apply(shape string, s string) string {
	gt := strings.Index(s, ">")
	if strings.HasPrefix(s, "<?") || strings.HasPrefix(s, "<!--") || strings.HasPrefix(s, "\xef\xbb\xbf") {
		// root start tag is after the prolog
		i := strings.Index(s, "<samlp:")
		if i < 0 {
			i = strings.Index(s, "<Response")
		}
		if i >= 0 {
			gt = i + strings.Index(s[i:], ">")
		}
	}
	rootStart := strings.LastIndex(s[:gt], "<")
	tagEnd := rootStart
	for tagEnd < len(s) && s[tagEnd] != ' ' {
		tagEnd++
	}
	insFirst := func(a string) string { return s[:tagEnd] + " " + a + s[tagEnd:] }
	insLast := func(a string) string { return s[:gt] + " " + a + s[gt:] }
	issStart := strings.Index(s, "<saml:Issuer")
	issEnd := -1
	if issStart >= 0 {
		issEnd = issStart + strings.Index(s[issStart:], "</saml:Issuer>") + len("</saml:Issuer>")
	}
	issuerText := func(f func(string) string) string {
		if issStart < 0 {
			return s
		}
		open := issStart + strings.Index(s[issStart:], ">") + 1
		close := issEnd - len("</saml:Issuer>")
		return s[:open] + f(s[open:close]) + s[close:]
	}
	attrVal := func(name string, f func(string) string) string {
		k := strings.Index(s[:gt], " "+name+`="`)
		if k < 0 {
			return s
		}
		a := k + len(name) + 3
		b := a + strings.Index(s[a:], `"`)
		return s[:a] + f(s[a:b]) + s[b:]
	}
	evilIssuer := `<saml:Issuer>https://evil-idp.example.com/metadata</saml:Issuer>`
	switch shape {
	case "prefixed-ID-before":
		return insFirst(`xmlns:x="urn:example:x" x:ID="_evil-id"`)
	case "prefixed-ID-after":
		return insLast(`xmlns:x="urn:example:x" x:ID="_evil-id"`)
	case "prefixed-Destination-before":
		return insFirst(`xmlns:x="urn:example:x" x:Destination="https://evil.example.com/acs"`)
	case "prefixed-InResponseTo-after":
		return insLast(`xmlns:x="urn:example:x" x:InResponseTo="_evil-req"`)
	case "prefixed-Version-before":
		return insFirst(`xmlns:x="urn:example:x" x:Version="1.1"`)
	case "duplicate-ID-evil-first":
		return insFirst(`ID="_evil-id"`)
	case "duplicate-ID-evil-last":
		return insLast(`ID="_evil-id"`)
	case "duplicate-InResponseTo-evil-first":
		return insFirst(`InResponseTo="_evil-req"`)
	case "two-issuers-evil-first":
		if issStart < 0 {
			return s
		}
		return s[:issStart] + evilIssuer + s[issStart:]
	case "two-issuers-evil-last":
		if issStart < 0 {
			return s
		}
		return s[:issEnd] + evilIssuer + s[issEnd:]
	case "foreign-ns-issuer-first":
		if issStart < 0 {
			return s
		}
		return s[:issStart] + `<x:Issuer xmlns:x="urn:example:x">https://evil-idp.example.com/metadata</x:Issuer>` + s[issStart:]
	case "nested-issuer-in-extensions-first":
		if issStart < 0 {
			return s
		}
		return s[:issStart] + `<samlp:Extensions>` + evilIssuer + `</samlp:Extensions>` + s[issStart:]
	case "issuer-with-comment":
		return issuerText(func(t string) string { return t[:8] + "<!-- c -->" + t[8:] })
	case "issuer-cdata":
		return issuerText(func(t string) string { return "<![CDATA[" + t + "]]>" })
	case "issuer-charref":
		return issuerText(func(t string) string { return strings.Replace(t, "h", "&#104;", 1) })
	case "issuer-leading-trailing-space":
		return issuerText(func(t string) string { return "\n  " + t + "\n" })
	case "issuer-child-element":
		return issuerText(func(t string) string { return t + `<x:y xmlns:x="urn:example:x">evil</x:y>` })
	case "inresponseto-charref":
		return attrVal("InResponseTo", func(v string) string { return strings.Replace(v, "r", "&#x72;", 1) })
	case "inresponseto-newline":
		return attrVal("InResponseTo", func(v string) string { return v + "\n" })
	case "inresponseto-cr":
		return attrVal("InResponseTo", func(v string) string { return v + "\r" })
	case "inresponseto-tab":
		return attrVal("InResponseTo", func(v string) string { return "\t" + v })
	case "inresponseto-spaces":
		return attrVal("InResponseTo", func(v string) string { return "  " + v + "  x" })
	case "remove-InResponseTo", "remove-Destination", "empty-Destination":
		name := strings.SplitN(shape, "-", 2)[1]
		k := strings.Index(s[:gt], " "+name+`="`)
		if k < 0 {
			return s
		}
		e := k + len(name) + 3
		e += strings.Index(s[e:], `"`) + 1
		if strings.HasPrefix(shape, "empty") {
			return s[:k] + " " + name + `=""` + s[e:]
		}
		return s[:k] + s[e:]
	case "empty-issuer":
		return issuerText(func(string) string { return "" })
	case "xmlns-ID-after":
		return insLast(`xmlns:ID="_evil-id"`)
	case "xmlns-Destination-after":
		return insLast(`xmlns:Destination="https://evil.example.com/acs"`)
	case "xmlns-InResponseTo-after":
		return insLast(`xmlns:InResponseTo="_evil-req"`)
	case "xmlns-Version-after":
		return insLast(`xmlns:Version="1.1"`)
	case "xmlns-ID-before":
		return insFirst(`xmlns:ID="_evil-id"`)
	case "xmlns-ID-used-in-keyinfo", "xmlns-Destination-used-in-keyinfo", "xmlns-InResponseTo-used-in-keyinfo":
		name := strings.Split(shape, "-")[1]
		val := map[string]string{"ID": "_evil-id", "Destination": "https://evil.example.com/acs", "InResponseTo": "_evil-req"}[name]
		k := strings.Index(s, "</ds:KeyInfo>")
		if k < 0 || k < gt {
			return insLast(`xmlns:` + name + `="` + val + `"`)
		}
		s = s[:k] + "<" + name + ":note/>" + s[k:]
		return s[:gt] + ` xmlns:` + name + `="` + val + `"` + s[gt:]
	case "encrypted-issuer-before-issuer", "encrypted-issuer-after-issuer", "encrypted-issuer-at-end":
		if issStart < 0 {
			return s
		}
		switch shape {
		case "encrypted-issuer-before-issuer":
			return s[:issStart] + c20EncIssuer() + s[issStart:]
		case "encrypted-issuer-after-issuer":
			return s[:issEnd] + c20EncIssuer() + s[issEnd:]
		}
		end := strings.LastIndex(s, "</")
		return s[:end] + c20EncIssuer() + s[end:]
	case "move-issuer-to-end", "second-issuer-at-end":
		if issStart < 0 {
			return s
		}
		end := strings.LastIndex(s, "</")
		if shape == "second-issuer-at-end" {
			return s[:end] + evilIssuer + s[end:]
		}
		iss := s[issStart:issEnd]
		return s[:issStart] + s[issEnd:end] + iss + s[end:]
	case "move-status-before-issuer":
		a := strings.Index(s, "<samlp:Status>")
		b := strings.Index(s, "</samlp:Status>")
		if a < 0 || b < 0 || issStart < 0 || a < issStart {
			return s
		}
		b += len("</samlp:Status>")
		return s[:issStart] + s[a:b] + s[issStart:a] + s[b:]
	case "bom":
		return "\xef\xbb\xbf" + s
	case "default-ns-root", "root-prefix-redeclared-on-issuer":
		if shape == "root-prefix-redeclared-on-issuer" {
			if issStart < 0 {
				return s
			}
			return strings.Replace(s, "<saml:Issuer", `<saml:Issuer xmlns:samlp="urn:example:evil"`, 1)
		}
		return s
	default:
		return string(idp.ApplyLex(shape, []byte(s)))
	}
}

type c20Fields struct{ ID, InResponseTo, Destination, Version, Issuer string }

func c20Exec(c c20Case) (keys []string, detail, class string) {
	if c.AfterPoison > 0 {
		// both orders of the two decoders right after the failed delivery
		p := c.AfterPoison - 1
		c.AfterPoison = 0
		for _, preFirst := range []bool{true, false} {
			c10SeqPoison(p)
			c.preFirst = preFirst
			k, d, cl := c20Exec(c)
			for _, x := range k {
				keys = append(keys, strings.Replace(x, "C20/", "C20/after-a-failed-delivery/", 1))
			}
			detail, class = d, cl
			if len(keys) > 0 {
				break
			}
		}
		return dedupe(keys), detail, class
	}
	var enc string
	switch {
	case c.Genuine != nil:
		e, _, _, err := c08Doc(*c.Genuine)
		if err != nil {
			return nil, err.Error(), "harness-error"
		}
		enc = e
	case c.Kind == "Response":
		r := idp.DefaultResponse(1)
		if c.Signed {
			r.Sign = idp.SignSpec{Key: "K1"} // exclusive c14n
		} else {
			r.Assertions[0].Sign = idp.SignSpec{Key: "K1"}
		}
		for _, sh := range c.Shapes {
			if c20Shapes[sh] == "default-ns-root" {
				r.Layout.Prefix = 2
			}
		}
		var s string
		if c.Odd > 0 {
			r.Sign = idp.SignSpec{}
			doc := idp.BuildResponse(r)
			c20ApplyOdd(doc.Root(), c20Odd[c.Odd-1])
			if c.Signed {
				idp.SignInPlace(doc.Root(), idp.SignSpec{Key: "K1"})
			}
			s = string(idp.Bytes(doc, idp.Layout{}))
		} else {
			s = string(idp.Bytes(idp.BuildResponse(r), idp.Layout{}))
		}
		for _, sh := range c.Shapes {
			s = c20Apply(c20Shapes[sh], s)
		}
		enc = idp.Encode([]byte(s), c.Deflate)
		if c.Stored > 0 {
			enc = base64.StdEncoding.EncodeToString(c20StoredFraming([]byte(s), c.Stored))
		}
	default:
		l := idp.DefaultLogout("LogoutResponse")
		if c.Signed {
			l.Sign = idp.SignSpec{Key: "K1"}
		}
		for _, sh := range c.Shapes {
			if c20Shapes[sh] == "default-ns-root" {
				l.Layout.Prefix = 2
			}
		}
		var s string
		if c.Odd > 0 {
			l.Sign = idp.SignSpec{}
			doc := idp.BuildLogout(l)
			c20ApplyOdd(doc.Root(), c20Odd[c.Odd-1])
			if c.Signed {
				idp.SignInPlace(doc.Root(), idp.SignSpec{Key: "K1"})
			}
			s = string(idp.Bytes(doc, idp.Layout{}))
		} else {
			s = string(idp.Bytes(idp.BuildLogout(l), idp.Layout{}))
		}
		for _, sh := range c.Shapes {
			s = c20Apply(c20Shapes[sh], s)
		}
		enc = idp.Encode([]byte(s), c.Deflate)
		if c.Stored > 0 {
			enc = base64.StdEncoding.EncodeToString(c20StoredFraming([]byte(s), c.Stored))
		}
	}
	if c.Trail > 0 {
		enc += c20Trails[c.Trail-1]
	}
	conf := world.SPConf{Store: []string{"K1", "K3"}, NoIssuer: c.NoIssuer}
	var full, pre c20Fields
	var rf, rp callResult
	iss := func(i *types.Issuer) string {
		if i == nil {
			return "<nil>"
		}
		return i.Value
	}
	var callFull, callPre func()
	if c.Kind == "Response" {
		callFull = func() {
			resp, r := validateResponse(conf.Build(), enc)
			rf = r
			if r.Accepted() {
				full = c20Fields{resp.ID, resp.InResponseTo, resp.Destination, resp.Version, iss(resp.Issuer)}
			}
		}
		callPre = func() {
			var u *types.UnverifiedBaseResponse
			var err error
			p := guard(func() { u, err = saml2.DecodeUnverifiedBaseResponse(enc) })
			rp = callResult{Panic: p, Err: describeErr(err), NilRes: u == nil}
			if rp.Accepted() {
				pre = c20Fields{u.ID, u.InResponseTo, u.Destination, u.Version, iss(u.Issuer)}
			}
		}
	} else {
		callFull = func() {
			resp, r := validateLogoutResponse(conf.Build(), enc)
			rf = r
			if r.Accepted() {
				full = c20Fields{resp.ID, resp.InResponseTo, resp.Destination, resp.Version, iss(resp.Issuer)}
			}
		}
		callPre = func() {
			var u *types.LogoutResponse
			var err error
			p := guard(func() { u, err = saml2.DecodeUnverifiedLogoutResponse(enc) })
			rp = callResult{Panic: p, Err: describeErr(err), NilRes: u == nil}
			if rp.Accepted() {
				pre = c20Fields{u.ID, u.InResponseTo, u.Destination, u.Version, iss(u.Issuer)}
			}
		}
	}
	if c.preFirst {
		// (multi-IdP deployments pre-decode first, then validate)
		callPre()
		callFull()
	} else {
		callFull()
		callPre()
	}
	names := []string{}
	for _, sh := range c.Shapes {
		names = append(names, c20Shapes[sh])
	}
	detail = fmt.Sprintf("kind=%s shapes=%v genuine=%v | full: accepted=%v err=%q %+v | pre-decode: ok=%v err=%q %+v", c.Kind, names, c.Genuine != nil, rf.Accepted(), rf.Err.Text, full, rp.Accepted(), rp.Err.Text, pre)
	if rf.Panic != "" || rp.Panic != "" {
		return []string{"C20/panic"}, detail, "panic"
	}
	if !rf.Accepted() {
		if c.Genuine != nil {
			return nil, detail, "genuine-rejected(see C08)"
		}
		return nil, detail, "full-validation-rejects"
	}
	if c.Odd > 0 {
		names = append(names, "idp-signed:"+c20Odd[c.Odd-1])
	}
	if c.Stored > 0 {
		names = append(names, fmt.Sprintf("stored-block-framing-%d", c.Stored))
	}
	if c.Trail > 0 {
		names = append(names, fmt.Sprintf("trailing-bytes-%q", c20Trails[c.Trail-1]))
	}
	shapeKey := strings.Join(names, "+")
	if c.Genuine != nil {
		shapeKey = "genuine-layout"
	}
	if !rp.Accepted() {
		return []string{"C20/" + c.Kind + "/pre-decode-fails-on-accepted-message/" + shapeKey}, detail, "accepted/PREDECODE-FAILS"
	}
	if full != pre {
		f := "ID"
		switch {
		case full.InResponseTo != pre.InResponseTo:
			f = "InResponseTo"
		case full.Destination != pre.Destination:
			f = "Destination"
		case full.Version != pre.Version:
			f = "Version"
		case full.Issuer != pre.Issuer:
			f = "Issuer"
		}
		return []string{"C20/" + c.Kind + "/pre-decode-disagrees/" + f + "/" + shapeKey}, detail, "accepted/DISAGREE"
	}
	if c.Genuine != nil {
		return nil, detail, "accepted/agree/genuine"
	}
	return nil, detail, "accepted/agree/shaped"
}

func c20Replay(raw json.RawMessage) ([]string, string) {
	var c c20Case
	if err := json.Unmarshal(raw, &c); err != nil {
		return nil, err.Error()
	}
	k, d, _ := c20Exec(c)
	return k, d
}

func c20Run(r *mc.Run) {
	r.Rule = "every document of C08's layout space (same generator and bounds) + attacker-shaped documents with an unsigned root: every combination of <=2 (quick) / <=3 (thorough) of 46 shadowing/layout shapes (namespace-prefixed and duplicated root attributes before/after the real one, two Issuers in either order, foreign-namespace / nested Issuer first, comments/CDATA/character references/whitespace/child element in Issuer, character references and raw TAB/LF/CR in an attribute value, prolog variants, quote style, attribute order, BOM, default namespace, prefix rebinding, an EncryptedAssertion whose plaintext is another Issuer before/after the Issuer or at the end, declarations of unused namespace prefixes named like the decoded attributes) x raw/DEFLATE x IdP issuer configured or not, for SSO Responses and LogoutResponses with signed and unsigned roots (shapes applied after signing); 10 arrangements of attributes in foreign namespaces named like the decoded ones, written by the IdP before it signs (signed and unsigned roots, both kinds, raw/DEFLATE); the encoded string followed by 7 kinds of trailing bytes; compressed presentations hand-framed in stored blocks whose stream starts with a tab or space byte and ends in a line feed; differential oracle; plus a genuine signed message of each kind pre-decoded and validated right after each of 7 deliveries whose decoding fails; non-trivial = full validation accepted, so the two decoders were compared; distinct = distinct case"
	var cases []c20Case
	for _, g := range c08Cases(r) {
		g := g
		cases = append(cases, c20Case{Kind: "Response", Genuine: &g})
	}
	bound := 2
	if r.Thorough() {
		bound = 3
	}
	r.Set("shape_deviation_bound", bound)
	for _, kind := range []string{"Response", "LogoutResponse"} {
		for _, signed := range []bool{false, true} {
			mc.Enumerate(bound, r.Expired, func(ch *mc.Chooser) {
				c := c20Case{Kind: kind, Signed: signed}
				for i := range c20Shapes {
					if ch.Bool(c20Shapes[i]) {
						c.Shapes = append(c.Shapes, i)
					}
				}
				for _, d := range []bool{false, true} {
					for _, ni := range []bool{false, true} {
						cc := c
						cc.Deflate, cc.NoIssuer = d, ni
						cc.Shapes = append([]int(nil), c.Shapes...)
						cases = append(cases, cc)
					}
				}
			})
		}
	}
	// what the IdP itself may sign: foreign-namespace attributes named like the decoded ones
	for _, kind := range []string{"Response", "LogoutResponse"} {
		for odd := 1; odd <= len(c20Odd); odd++ {
			for _, signed := range []bool{false, true} {
				for _, d := range []bool{false, true} {
					for _, ni := range []bool{false, true} {
						cases = append(cases, c20Case{Kind: kind, Odd: odd, Signed: signed, Deflate: d, NoIssuer: ni})
					}
				}
			}
		}
		// bytes after the base64 text
		for tr := 1; tr <= len(c20Trails); tr++ {
			for _, signed := range []bool{false, true} {
				for _, d := range []bool{false, true} {
					cases = append(cases, c20Case{Kind: kind, Trail: tr, Signed: signed, Deflate: d})
				}
			}
		}
		// compressed presentations that compress/flate would not write
		for st := 1; st <= 2; st++ {
			for _, signed := range []bool{false, true} {
				cases = append(cases, c20Case{Kind: kind, Stored: st, Signed: signed})
				cases = append(cases, c20Case{Kind: kind, Stored: st, Signed: signed, Shapes: []int{22}}) // with an XML declaration
			}
		}
	}
	// sequences (sequential, at the end): a genuine signed message pre-decoded and validated
	// right after a delivery whose decoding failed
	defer func() {
		for p := range c10Poisons {
			for _, kind := range []string{"Response", "LogoutResponse"} {
				c := c20Case{Kind: kind, Signed: true, AfterPoison: p + 1}
				keys, detail, class := c20Exec(c)
				r.Eval(2)
				r.State(1)
				r.Transition(2)
				r.Bucket("after-failed-delivery/" + class)
				r.Nontrivial(fmt.Sprintf("%+v", c))
				for _, k := range keys {
					r.Violation(k, detail[:min(len(detail), 1500)], c)
				}
			}
		}
	}()
	r.State(len(cases))
	r.Par(len(cases), func(i int) {
		c := cases[i]
		keys, detail, class := c20Exec(c)
		r.Eval(2)
		r.Transition(2)
		r.Bucket(class)
		if strings.HasPrefix(class, "accepted") {
			r.Nontrivial(fmt.Sprintf("%+v/%v", c, c.Genuine))
		}
		if i%1777 == 0 {
			r.Sample(map[string]interface{}{"case": c, "observed": detail[:min(len(detail), 500)]})
		}
		for _, k := range keys {
			r.Violation(k, detail[:min(len(detail), 1500)], c)
		}
	})
}

func init() {
	register("C20", &check{run: c20Run, replay: c20Replay, quick: 240 * time.Second, thor: 1500 * time.Second})
}
