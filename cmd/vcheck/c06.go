package main

import (
	"encoding/json"
	"fmt"
	"reflect"
	"strconv"
	"strings"
	"time"

	"verif/idp"
	"verif/mc"
	"verif/world"
)

// C06 — audience, one-time-use and proxy warnings mirror the signed conditions exactly.

var c06AudValues = []string{
	world.Audience,
	"HTTPS://SP.EXAMPLE.COM/AUDIENCE",
	world.Audience + "/",
	" " + world.Audience,
	"https://other.example.com/audience",
	"",
	// what a URL library would call the same URI (not part of the product alphabet; tried one
	// at a time below): scheme in upper case, an empty fragment, an empty query, a default port
	"HTTPS" + world.Audience[5:],
	world.Audience + "#",
	world.Audience + "?",
	strings.Replace(world.Audience, "sp.example.com", "sp.example.com:443", 1),
	"#", // (the same URI as the empty one, to such a library)
}

// c06Product is the number of alphabet values that take part in the full product.
const c06Product = 6

var c06URIs = []string{world.Audience, "", "HTTPS://SP.EXAMPLE.COM/AUDIENCE"}

type c06Proxy struct {
	Present bool  `json:"present"`
	Count   int   `json:"count"` // -1 absent
	Aud     []int `json:"aud"`
}

var c06Proxies = []c06Proxy{
	{},
	{Present: true, Count: -1, Aud: nil},
	{Present: true, Count: 0, Aud: []int{0}},
	{Present: true, Count: 3, Aud: []int{4, 0}},
	{Present: true, Count: 3, Aud: nil},
}

type c06Case struct {
	Restr [][]int `json:"restrictions"` // indices into the audience alphabet
	OTU   bool    `json:"onetimeuse"`
	Proxy int     `json:"proxy"`
	URI   int     `json:"uri"`
	// Second adds a second assertion whose conditions say the opposite (an audience that
	// matches every configured URI but the empty one, no OneTimeUse, no ProxyRestriction when
	// the first has them and vice versa): the warnings are about the FIRST assertion
	Second bool `json:"second_assertion,omitempty"`
	// PerAssertion: the Response is unsigned and every assertion carries its own signature
	PerAssertion bool `json:"assertions_signed_individually,omitempty"`
}

func c06Spec(c c06Case) idp.ResponseSpec {
	n := 1
	if c.Second {
		n = 2
	}
	r := idp.DefaultResponse(n)
	if c.Second {
		b := &r.Assertions[1]
		b.Audiences = [][]string{{"https://nobody.example.com/audience"}}
		if len(c.Restr) > 0 {
			b.Audiences = nil
		}
		b.OneTimeUse = !c.OTU
		if !c06Proxies[c.Proxy].Present {
			b.Proxy = &idp.ProxySpec{Count: "7", Audiences: []string{"second"}}
		}
	}
	a := &r.Assertions[0]
	a.Audiences = nil
	for _, rs := range c.Restr {
		l := []string{}
		for _, i := range rs {
			l = append(l, c06AudValues[i])
		}
		a.Audiences = append(a.Audiences, l)
	}
	a.OneTimeUse = c.OTU
	p := c06Proxies[c.Proxy]
	if p.Present {
		ps := &idp.ProxySpec{Count: idp.Absent, Audiences: []string{}}
		if p.Count >= 0 {
			ps.Count = strconv.Itoa(p.Count)
		}
		for _, i := range p.Aud {
			ps.Audiences = append(ps.Audiences, c06AudValues[i])
		}
		a.Proxy = ps
	}
	r.Sign = idp.SignSpec{Key: "K3"}
	if c.PerAssertion {
		r.Sign = idp.SignSpec{}
		for i := range r.Assertions {
			r.Assertions[i].Sign = idp.SignSpec{Key: "K3"}
		}
	}
	return r
}

func c06Judge(c c06Case, enc string) (keys []string, detail, class string) {
	uri := c06URIs[c.URI]
	conf := world.SPConf{Store: []string{"K3"}, Audience: &uri}
	info, r := retrieveInfo(conf.Build(), enc)
	detail = fmt.Sprintf("case=%+v uri=%q accepted=%v err=%q panic=%q", c, uri, r.Accepted(), r.Err.Text, r.Panic)
	if !r.Accepted() || info.WarningInfo == nil {
		return []string{"C06/genuine-response-rejected"}, detail, "REJECTED"
	}
	w := info.WarningInfo
	// set semantics from the statement
	wantNIA := false
	for _, rs := range c.Restr {
		m := false
		for _, i := range rs {
			if c06AudValues[i] == uri {
				m = true
			}
		}
		if !m {
			wantNIA = true
		}
	}
	detail += fmt.Sprintf(" | NotInAudience=%v (want %v) OneTimeUse=%v (want %v) Proxy=%+v", w.NotInAudience, wantNIA, w.OneTimeUse, c.OTU, w.ProxyRestriction)
	if w.NotInAudience != wantNIA {
		k := "spurious"
		if wantNIA {
			k = "missing"
		}
		sub := fmt.Sprintf("restrictions=%d", len(c.Restr))
		if len(c.Restr) == 0 {
			sub = "no-restriction"
		}
		if uri == "" {
			sub += "/empty-configured-uri"
		}
		keys = append(keys, fmt.Sprintf("C06/not-in-audience/%s/%s", k, sub))
	}
	if w.OneTimeUse != c.OTU {
		keys = append(keys, "C06/one-time-use-mismatch")
	}
	p := c06Proxies[c.Proxy]
	switch {
	case !p.Present && w.ProxyRestriction != nil:
		keys = append(keys, "C06/proxy/reported-although-absent")
	case p.Present && w.ProxyRestriction == nil:
		keys = append(keys, "C06/proxy/missing")
	case p.Present:
		wc := p.Count
		if wc < 0 {
			wc = 0
		}
		wa := []string{}
		for _, i := range p.Aud {
			wa = append(wa, c06AudValues[i])
		}
		if w.ProxyRestriction.Count != wc {
			keys = append(keys, "C06/proxy/count-differs")
		}
		if !reflect.DeepEqual(append([]string{}, w.ProxyRestriction.Audience...), wa) {
			keys = append(keys, "C06/proxy/audience-list-differs")
		}
	}
	class = fmt.Sprintf("nia=%v/otu=%v/proxy=%v", w.NotInAudience, w.OneTimeUse, w.ProxyRestriction != nil)
	return keys, detail, class
}

var c06Memo = map[string][]c06Case{}

func c06Replay(raw json.RawMessage) ([]string, string) {
	get := func(t string) []c06Case {
		if d, ok := c06Memo[t]; ok {
			return d
		}
		m := 2
		if t == "thorough" {
			m = 3
		}
		c06Memo[t] = c06Docs(m)
		return c06Memo[t]
	}
	nu := len(c06URIs)
	if keys, detail, ok := liveReplay(raw, "C06", func(t string) int { return len(get(t)) * nu }, func(t string, j int) string {
		c := get(t)[j/nu]
		c.URI = j % nu
		k, _, class := c06Judge(c, idp.RenderResponse(c06Spec(c)))
		return sig(k, class)
	}); ok {
		return keys, detail
	}
	var c c06Case
	if err := json.Unmarshal(raw, &c); err != nil {
		return nil, err.Error()
	}
	k, d, _ := c06Judge(c, idp.RenderResponse(c06Spec(c)))
	return k, d
}

func c06Lists() [][]int {
	out := [][]int{{}}
	n := c06Product
	for i := 0; i < n; i++ {
		out = append(out, []int{i})
	}
	for i := 0; i < n; i++ {
		for j := 0; j < n; j++ {
			out = append(out, []int{i, j})
		}
	}
	return out
}

func c06Docs(maxR int) []c06Case {
	lists := c06Lists()
	var docs []c06Case
	// the URL-equivalent spellings: alone, before and after an unrelated audience, and as a
	// second restriction beside one that names the audience exactly
	for i := c06Product; i < len(c06AudValues); i++ {
		for _, restr := range [][][]int{{{i}}, {{i, 4}}, {{4, i}}, {{0}, {i}}} {
			docs = append(docs, c06Case{Restr: restr}, c06Case{Restr: restr, PerAssertion: true})
		}
	}
	var rec func(prefix [][]int, depth int)
	rec = func(prefix [][]int, depth int) {
		full := len(prefix) <= 2
		for otu := 0; otu < 2; otu++ {
			for p := range c06Proxies {
				if !full && otu == 1 && p != 0 {
					continue
				}
				cp := make([][]int, len(prefix))
				copy(cp, prefix)
				docs = append(docs, c06Case{Restr: cp, OTU: otu == 1, Proxy: p})
				if len(prefix) <= 1 {
					docs = append(docs, c06Case{Restr: cp, OTU: otu == 1, Proxy: p, Second: true})
					docs = append(docs, c06Case{Restr: cp, OTU: otu == 1, Proxy: p, Second: true, PerAssertion: true})
					docs = append(docs, c06Case{Restr: cp, OTU: otu == 1, Proxy: p, PerAssertion: true})
				}
			}
		}
		if depth == maxR {
			return
		}
		for _, l := range lists {
			rec(append(prefix, l), depth+1)
		}
	}
	rec(nil, 0)
	return docs
}

func c06Run(r *mc.Run) {
	maxR := 2
	if r.Thorough() {
		maxR = 3
	}
	r.Rule = fmt.Sprintf("every sequence of 0..%d AudienceRestrictions, each every ordered list of 0..2 audiences over a 6-value near-miss alphabet (exact, case, trailing slash, leading space, other, empty; four URL-equivalent spellings - scheme case, empty fragment, empty query, default port - are tried one at a time) x OneTimeUse x 5 ProxyRestriction shapes (Response-signed; the shapes with at most one restriction also in an unsigned Response whose assertions are signed individually, alone and followed by a second assertion that says the opposite) (full product up to 2 restrictions; at 3 restrictions at most one of OneTimeUse/Proxy deviates) x 3 configured audience URIs (exact, empty, upper-case), plus (up to 1 restriction) a second assertion whose conditions say the opposite; non-trivial = accepted genuine response whose warnings were compared; distinct = distinct (document, uri)", maxR)
	docs := c06Docs(maxR)
	r.Set("documents", len(docs))
	r.State(len(docs))
	nu := len(c06URIs)
	fresh := make([]string, len(docs)*nu)
	defer func() {
		stride := 4*nu + 1
		if r.Thorough() {
			stride = 64*nu + 1
		}
		livePass(r, len(fresh), stride, 90*time.Second, func(j int) string {
			c := docs[j/nu]
			c.URI = j % nu
			keys, _, class := c06Judge(c, idp.RenderResponse(c06Spec(c)))
			return sig(keys, class)
		}, fresh)
	}()
	r.Par(len(docs), func(i int) {
		d := docs[i]
		enc := idp.RenderResponse(c06Spec(d))
		for u := range c06URIs {
			c := d
			c.URI = u
			keys, detail, class := c06Judge(c, enc)
			fresh[i*nu+u] = sig(keys, class)
			r.Eval(1)
			r.Transition(1)
			r.Bucket(class)
			if class != "REJECTED" {
				r.Nontrivial(fmt.Sprintf("%v/%v/%d/%d/%v/%v", c.Restr, c.OTU, c.Proxy, u, c.Second, c.PerAssertion))
			}
			if (i*3+u)%7919 == 0 {
				r.Sample(map[string]interface{}{"case": c, "observed": detail})
			}
			for _, k := range keys {
				r.Violation(k, detail, c)
			}
		}
	})
}

func init() {
	register("C06", &check{run: c06Run, replay: c06Replay, quick: 150 * time.Second, thor: 1200 * time.Second})
}
