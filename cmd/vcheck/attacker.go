package main

import (
	"bytes"
	"encoding/base64"
	"fmt"
	"strings"
	"sync"

	"github.com/beevik/etree"

	"verif/idp"
	"verif/mc"
	"verif/oracle"
	"verif/world"
)

// ---------------------------------------------------------------------------------------
// The attacker transition system (DESIGN.md 2.2 E-BFS (a), 3/C01).
//
// A state is the attacker's current document (bytes) plus the presentation flag. Initial
// states are genuine IdP-signed messages. Transitions are stateless edit operators on the
// parsed document. The invariants are evaluated by the real entry points in every state.
// ---------------------------------------------------------------------------------------

type attState struct {
	XML     []byte
	Deflate bool
	Path    string // how the state was reached (for reports; not part of the key)
}

func (s attState) Key() []byte {
	k := append([]byte{}, s.XML...)
	if s.Deflate {
		return append(k, 1)
	}
	return append(k, 0)
}

func (s attState) Encoded() string { return idp.Encode(s.XML, s.Deflate) }

var writeCanon = etree.WriteSettings{CanonicalText: true, CanonicalAttrVal: true}

func parseDoc(b []byte) *etree.Document {
	d := etree.NewDocument()
	if err := d.ReadFromBytes(b); err != nil {
		return nil
	}
	return d
}

func serDoc(d *etree.Document) []byte {
	d.WriteSettings = writeCanon
	b, err := d.WriteToBytes()
	if err != nil {
		panic(err)
	}
	return b
}

// genuineMsg is one message the IdP really issued.
type genuineMsg struct {
	Name string
	XML  []byte
}

// signedPool is what IdP keys really signed, by key name.
type signedPool struct {
	own     map[string]map[string]bool // key -> tuples of assertions carrying their own signature by that key
	covered map[string]map[string]bool // key -> tuples of assertions covered by any signature of that key (own or enclosing Response)
	resp    map[string]map[string]bool // key -> tuples of Responses signed by that key
	// source elements for the splice operator: standalone bytes of individually signed assertions
	spliceSrc [][]byte
}

type attWorld struct {
	msgs []genuineMsg
	pool signedPool
}

var (
	attOnce sync.Once
	attW    *attWorld
)

func uniq(r *idp.ResponseSpec, tag string) {
	r.ID = "_" + tag + "-resp"
	for i := range r.Assertions {
		r.Assertions[i].ID = fmt.Sprintf("_%s-a%d", tag, i+1)
		r.Assertions[i].SessionIndex = fmt.Sprintf("_%s-s%d", tag, i+1)
	}
}

func theAttWorld() *attWorld {
	attOnce.Do(func() {
		w := &attWorld{}
		w.pool.own, w.pool.covered, w.pool.resp = map[string]map[string]bool{}, map[string]map[string]bool{}, map[string]map[string]bool{}
		add := func(m map[string]map[string]bool, key, tuple string) {
			if m[key] == nil {
				m[key] = map[string]bool{}
			}
			m[key][tuple] = true
		}
		type gen struct {
			name string
			spec idp.ResponseSpec
		}
		var gens []gen
		mk := func(name string, n int, respKey string, asKeys []string, enc bool) {
			r := idp.DefaultResponse(n)
			uniq(&r, name)
			if respKey != "" {
				r.Sign = idp.SignSpec{Key: respKey}
			}
			for i, k := range asKeys {
				if k != "" {
					r.Assertions[i].Sign = idp.SignSpec{Key: k}
				}
			}
			gens = append(gens, gen{name, r})
			if enc {
				re := idp.DefaultResponse(n)
				uniq(&re, name) // the encrypted twin carries the same assertions
				re.ID = "_" + name + "e-resp"
				re.Sign = r.Sign
				for i := range re.Assertions {
					re.Assertions[i].Sign = r.Assertions[i].Sign
					re.Assertions[i].Encrypt = &idp.EncSpec{}
				}
				gens = append(gens, gen{name + "e", re})
			}
		}
		mk("g1", 1, "K1", []string{""}, true)        // Response signed, assertion not
		mk("g2", 1, "", []string{"K1"}, true)        // assertion signed only
		mk("g3", 1, "K1", []string{"K1"}, false)     // both
		mk("g4", 2, "K1", []string{"", ""}, false)   // Response signed, two assertions
		mk("g5", 2, "", []string{"K1", "K1"}, false) // two individually signed assertions
		mk("g6", 1, "", []string{"K2"}, false)       // signed by the roll-over key
		for _, g := range gens {
			// tuples from the tree before encryption
			plain := g.spec
			plain.Assertions = append([]idp.AssertionSpec(nil), g.spec.Assertions...)
			for i := range plain.Assertions {
				plain.Assertions[i].Encrypt = nil
			}
			pdoc := idp.BuildResponse(plain)
			root := pdoc.Root()
			for i, a := range oracle.Children(root, oracle.NSA, "Assertion") {
				t := oracle.AssertionFromElement(a).Key()
				if k := plain.Assertions[i].Sign.Key; k != "" {
					add(w.pool.own, k, t)
					add(w.pool.covered, k, t)
					if !strings.HasSuffix(g.name, "e") {
						w.pool.spliceSrc = append(w.pool.spliceSrc, idp.StandaloneBytes(a))
					}
				}
				if k := plain.Sign.Key; k != "" {
					add(w.pool.covered, k, t)
				}
			}
			if k := plain.Sign.Key; k != "" {
				rt := oracle.ResponseFromElement(root)
				rt.ID = g.spec.ID
				add(w.pool.resp, k, rt.Key())
			}
			w.msgs = append(w.msgs, genuineMsg{Name: g.name, XML: idp.Bytes(idp.BuildResponse(g.spec), idp.Layout{})})
		}
		attW = w
	})
	return attW
}

func (p *signedPool) in(m map[string]map[string]bool, store []string, tuple string) bool {
	for _, k := range store {
		if m[k][tuple] {
			return true
		}
	}
	return false
}

// ---- structural helpers ----

func walk(el *etree.Element, f func(*etree.Element)) {
	f(el)
	for _, c := range el.ChildElements() {
		walk(c, f)
	}
}

func allOf(root *etree.Element, ns, tag string) []*etree.Element {
	var out []*etree.Element
	walk(root, func(e *etree.Element) {
		if oracle.Is(e, ns, tag) {
			out = append(out, e)
		}
	})
	return out
}

func allAssertions(root *etree.Element) []*etree.Element { return allOf(root, idp.NSA, "Assertion") }
func allSignatures(root *etree.Element) []*etree.Element { return allOf(root, idp.NSDS, "Signature") }

func ownSig(el *etree.Element) *etree.Element {
	for _, c := range el.ChildElements() {
		if oracle.Is(c, idp.NSDS, "Signature") {
			return c
		}
	}
	return nil
}

func child(el *etree.Element, ns, tag string) *etree.Element {
	cs := oracle.Children(el, ns, tag)
	if len(cs) == 0 {
		return nil
	}
	return cs[0]
}

func setText(el *etree.Element, s string) {
	for len(el.Child) > 0 {
		el.RemoveChildAt(0)
	}
	el.SetText(s)
}

func insertAfterIssuer(parent, e *etree.Element) {
	idx := 0
	for i, ch := range parent.Child {
		if ce, ok := ch.(*etree.Element); ok {
			if ce.Tag == "Issuer" {
				idx = i + 1
			}
			break
		}
	}
	parent.InsertChildAt(idx, e)
}

// attachStandalone parses standalone element bytes and returns the root, ready to insert.
func attachStandalone(b []byte) *etree.Element {
	d := parseDoc(b)
	r := d.Root()
	d.RemoveChild(r)
	return r
}

const evilName = "mallory@evil.example.com"

// evilAssertion is an attacker-made assertion that would pass every profile check.
func evilAssertion(id string) *etree.Element {
	a := idp.DefaultAssertion(3)
	a.ID = id
	a.NameID = evilName
	a.AttrStatements = [][]idp.AttrSpec{{{Name: "uid", Values: []string{"mallory"}}, {Name: "groups", Values: []string{"admins"}}}}
	d := idp.BuildBareAssertion(a, 0)
	r := d.Root()
	d.RemoveChild(r)
	return r
}

func evilEdit(a *etree.Element, field string) bool {
	switch field {
	case "nameid":
		if s := child(a, idp.NSA, "Subject"); s != nil {
			if n := child(s, idp.NSA, "NameID"); n != nil {
				setText(n, evilName)
				return true
			}
		}
	case "attr":
		if as := child(a, idp.NSA, "AttributeStatement"); as != nil {
			if at := child(as, idp.NSA, "Attribute"); at != nil {
				if v := child(at, idp.NSA, "AttributeValue"); v != nil {
					setText(v, "root")
					return true
				}
			}
		}
	case "issuer":
		if i := child(a, idp.NSA, "Issuer"); i != nil {
			setText(i, world.IDPIssuer+"x")
			return true
		}
	case "session":
		if au := child(a, idp.NSA, "AuthnStatement"); au != nil {
			au.CreateAttr("SessionIndex", "_evil-session")
			return true
		}
	case "recipient":
		if d := a.FindElement("./Subject/SubjectConfirmation/SubjectConfirmationData"); d != nil {
			d.CreateAttr("InResponseTo", "_evil-req")
			return true
		}
	case "notonorafter":
		if c := child(a, idp.NSA, "Conditions"); c != nil {
			c.CreateAttr("NotOnOrAfter", "2031-01-01T00:00:00Z")
			return true
		}
	case "audience":
		if c := child(a, idp.NSA, "Conditions"); c != nil {
			if ar := child(c, idp.NSA, "AudienceRestriction"); ar != nil {
				c.RemoveChild(ar)
				return true
			}
		}
	case "id":
		a.CreateAttr("ID", "_evil-id")
		return true
	}
	return false
}

var attFields = []string{"nameid", "attr", "issuer", "session", "recipient", "notonorafter", "audience", "id"}

func mkEl(space, tag string, attrs ...string) *etree.Element {
	e := &etree.Element{Space: space, Tag: tag}
	for i := 0; i+1 < len(attrs); i += 2 {
		e.CreateAttr(attrs[i], attrs[i+1])
	}
	return e
}

func wrapper(kind string) *etree.Element {
	switch kind {
	case "Extensions":
		return mkEl("samlp", "Extensions", "xmlns:samlp", idp.NSP)
	case "Advice":
		return mkEl("saml", "Advice", "xmlns:saml", idp.NSA)
	case "Object":
		return mkEl("ds", "Object", "xmlns:ds", idp.NSDS)
	default:
		return mkEl("x", "Wrapper", "xmlns:x", "urn:example:foreign")
	}
}

var wrapperKinds = []string{"Extensions", "Advice", "Object", "Foreign"}

// successors applies every enabled operator instance to s. resign tells whether operators
// that sign with the attacker's key are enabled (they are switched off at the last level of
// deep searches: content re-signed by the attacker is already attacker-keyed).
func successors(s attState, resign bool) []mc.BFSState {
	w := theAttWorld()
	base := parseDoc(s.XML)
	if base == nil || base.Root() == nil {
		return nil
	}
	nA := len(allAssertions(base.Root()))
	nS := len(allSignatures(base.Root()))
	if nA > 4 {
		nA = 4
	}
	if nS > 4 {
		nS = 4
	}
	size := 0
	walk(base.Root(), func(*etree.Element) { size++ })
	grow := size < 400 // growth operators are disabled on very large documents

	var out []mc.BFSState
	apply := func(name string, f func(d *etree.Document) bool) {
		d := parseDoc(s.XML)
		if d == nil || !f(d) || d.Root() == nil {
			return
		}
		b := serDoc(d)
		if bytes.Equal(b, s.XML) {
			return
		}
		out = append(out, attState{XML: b, Deflate: s.Deflate, Path: s.Path + " > " + name})
	}
	A := func(d *etree.Document, j int) *etree.Element {
		as := allAssertions(d.Root())
		if j < len(as) {
			return as[j]
		}
		return nil
	}
	S := func(d *etree.Document, k int) *etree.Element {
		ss := allSignatures(d.Root())
		if k < len(ss) {
			return ss[k]
		}
		return nil
	}

	// presentation
	out = append(out, attState{XML: s.XML, Deflate: !s.Deflate, Path: s.Path + " > toggle-deflate"})

	// A. strip a signature
	for k := 0; k < nS; k++ {
		k := k
		apply(fmt.Sprintf("strip-sig[%d]", k), func(d *etree.Document) bool {
			sg := S(d, k)
			sg.Parent().RemoveChild(sg)
			return true
		})
	}
	// B. edit one signed field of an assertion
	for j := 0; j < nA; j++ {
		for _, f := range attFields {
			j, f := j, f
			apply(fmt.Sprintf("edit[%d].%s", j, f), func(d *etree.Document) bool { return evilEdit(A(d, j), f) })
		}
	}
	// C. edit root fields
	for _, f := range []string{"InResponseTo", "ID", "Destination", "Issuer", "Status"} {
		f := f
		apply("edit-root."+f, func(d *etree.Document) bool {
			r := d.Root()
			switch f {
			case "InResponseTo":
				r.CreateAttr("InResponseTo", "_evil-req")
			case "ID":
				r.CreateAttr("ID", "_evil-resp")
			case "Destination":
				r.RemoveAttr("Destination")
			case "Issuer":
				if i := child(r, idp.NSA, "Issuer"); i != nil {
					setText(i, world.IDPIssuer)
				} else {
					return false
				}
			case "Status":
				st := child(r, idp.NSP, "Status")
				if st == nil {
					return false
				}
				if c := child(st, idp.NSP, "StatusCode"); c != nil {
					c.CreateAttr("Value", idp.StatusSuccess)
				}
			}
			return true
		})
	}
	// C'. attributes named like the library's own result fields (a decoder that maps them would
	// let the message assert its own trust indicators)
	for t := -1; t < nA; t++ {
		t := t
		apply(fmt.Sprintf("self-asserted-flag-attr[%d]", t), func(d *etree.Document) bool {
			el := d.Root()
			if t >= 0 {
				el = A(d, t)
			}
			if el.SelectAttr("SignatureValidated") != nil {
				return false
			}
			el.CreateAttr("SignatureValidated", "true")
			return true
		})
	}
	// D. re-sign an element with the attacker's key
	if resign {
		for t := -1; t < nA; t++ {
			for _, mode := range []string{"", "cert:K1", "none"} {
				t, mode := t, mode
				apply(fmt.Sprintf("resign[%d]/%s", t, mode), func(d *etree.Document) bool {
					el := d.Root()
					if t >= 0 {
						el = A(d, t)
					}
					if sg := ownSig(el); sg != nil {
						el.RemoveChild(sg)
					}
					idp.SignInPlace(el, idp.SignSpec{Key: "KA", KeyInfo: mode})
					return true
				})
			}
		}
	}
	// E. move a signature onto another element
	for k := 0; k < nS; k++ {
		for t := -1; t < nA; t++ {
			k, t := k, t
			apply(fmt.Sprintf("move-sig[%d]->%d", k, t), func(d *etree.Document) bool {
				sg := S(d, k)
				el := d.Root()
				if t >= 0 {
					el = A(d, t)
				}
				if sg.Parent() == el {
					return false
				}
				// do not move a signature into its own subtree
				for p := el; p != nil; p = p.Parent() {
					if p == sg {
						return false
					}
				}
				sg.Parent().RemoveChild(sg)
				insertAfterIssuer(el, sg)
				return true
			})
		}
	}
	// E'. nest a signature inside a wrapper child of the element that carries it
	for k := 0; k < nS; k++ {
		k := k
		apply(fmt.Sprintf("nest-sig[%d]", k), func(d *etree.Document) bool {
			sg := S(d, k)
			p := sg.Parent()
			if p == nil || p.Tag == "Extensions" {
				return false
			}
			idx := sg.Index()
			p.RemoveChildAt(idx)
			wr := wrapper("Extensions")
			wr.AddChild(sg)
			p.InsertChildAt(idx, wr)
			return true
		})
	}
	// F. change what a signature references
	for k := 0; k < nS; k++ {
		targets := []string{"", "#" + base.Root().SelectAttrValue("ID", "")}
		for j := 0; j < nA; j++ {
			targets = append(targets, "#"+A(base, j).SelectAttrValue("ID", ""))
		}
		for _, uri := range targets {
			k, uri := k, uri
			apply(fmt.Sprintf("ref-uri[%d]=%q", k, uri), func(d *etree.Document) bool {
				ref := S(d, k).FindElement("./SignedInfo/Reference")
				if ref == nil || ref.SelectAttrValue("URI", "\x00") == uri {
					return false
				}
				ref.CreateAttr("URI", uri)
				return true
			})
		}
	}
	// G. flip digest / signature value; H. add a second reference
	for k := 0; k < nS; k++ {
		k := k
		for _, what := range []string{"DigestValue", "SignatureValue"} {
			what := what
			apply(fmt.Sprintf("flip-%s[%d]", what, k), func(d *etree.Document) bool {
				var e *etree.Element
				if what == "DigestValue" {
					e = S(d, k).FindElement("./SignedInfo/Reference/DigestValue")
				} else {
					e = S(d, k).FindElement("./SignatureValue")
				}
				if e == nil {
					return false
				}
				b, err := base64.StdEncoding.DecodeString(e.Text())
				if err != nil || len(b) == 0 {
					return false
				}
				b[0] ^= 1
				setText(e, base64.StdEncoding.EncodeToString(b))
				return true
			})
		}
		apply(fmt.Sprintf("add-ref[%d]", k), func(d *etree.Document) bool {
			si := S(d, k).FindElement("./SignedInfo")
			ref := S(d, k).FindElement("./SignedInfo/Reference")
			if si == nil || ref == nil {
				return false
			}
			r2 := ref.Copy()
			r2.CreateAttr("URI", "#_evil-1")
			si.AddChild(r2)
			return true
		})
	}
	// I. comments inside signed text
	for j := 0; j < nA; j++ {
		for _, mode := range []string{"split", "suffix", "prefix"} {
			j, mode := j, mode
			apply(fmt.Sprintf("comment[%d]/%s", j, mode), func(d *etree.Document) bool {
				n := A(d, j).FindElement("./Subject/NameID")
				if n == nil {
					return false
				}
				txt := oracle.TextOf(n)
				if len(txt) < 2 || len(n.Child) != 1 {
					return false
				}
				for len(n.Child) > 0 {
					n.RemoveChildAt(0)
				}
				switch mode {
				case "split":
					n.AddChild(etree.NewText(txt[:3]))
					n.AddChild(etree.NewComment("x"))
					n.AddChild(etree.NewText(txt[3:]))
				case "suffix":
					n.AddChild(etree.NewText(txt))
					n.AddChild(etree.NewComment("x"))
					n.AddChild(etree.NewText(".evil.example.com"))
				case "prefix":
					n.AddChild(etree.NewText("mallory+"))
					n.AddChild(etree.NewComment("x"))
					n.AddChild(etree.NewText(txt))
				}
				return true
			})
		}
	}
	// J. foreign namespace with the same local name; K. rebinding the SAML prefix
	for j := 0; j < nA; j++ {
		j := j
		apply(fmt.Sprintf("foreign-ns[%d]", j), func(d *etree.Document) bool {
			a := A(d, j)
			a.Space = "evil"
			a.CreateAttr("xmlns:evil", "urn:example:evil")
			return true
		})
	}
	apply("rebind-saml-prefix", func(d *etree.Document) bool {
		r := d.Root()
		if r.SelectAttr("xmlns:saml") == nil {
			return false
		}
		r.CreateAttr("xmlns:saml", "urn:example:evil")
		for _, c := range r.ChildElements() {
			if c.Space == "saml" {
				c.CreateAttr("xmlns:saml", idp.NSA)
			}
		}
		return true
	})
	// L. message-type confusion
	for _, tag := range []string{"LogoutResponse", "AuthnRequest", "LogoutRequest"} {
		tag := tag
		apply("retype-root="+tag, func(d *etree.Document) bool {
			if d.Root().Tag == tag {
				return false
			}
			d.Root().Tag = tag
			return true
		})
	}
	for j := 0; j < nA; j++ {
		j := j
		apply(fmt.Sprintf("promote[%d]", j), func(d *etree.Document) bool {
			a := A(d, j)
			if a.Parent() == nil || a == d.Root() {
				return false
			}
			b := idp.StandaloneBytes(a)
			nd := parseDoc(b)
			d.SetRoot(nd.Root())
			return true
		})
	}
	// N. encrypt an assertion to the SP certificate (anyone can)
	for j := 0; j < nA; j++ {
		variants := []idp.EncSpec{{}, {DataAlg: idp.AES192GCM}, {DataAlg: idp.AES256GCM}, {DataAlg: idp.AES128CBC}, {DataAlg: idp.AES256CBC, KeyAlg: idp.RSA15},
			{RecipCert: "KS"}, {RecipCert: "KX"}, {Placement: "detached", KeyAlg: idp.OAEP11, Digest: idp.EncDigSHA256}}
		for vi, v := range variants {
			j, v, vi := j, v, vi
			apply(fmt.Sprintf("encrypt[%d]/%d", j, vi), func(d *etree.Document) bool {
				a := A(d, j)
				if a.Parent() == nil {
					return false
				}
				idp.EncryptInPlace(a, v)
				return true
			})
		}
	}
	if grow {
		// O. splice a genuine individually signed assertion taken from another message
		for si, src := range w.pool.spliceSrc {
			for _, pos := range []string{"first", "last", "Extensions", "Advice"} {
				si, src, pos := si, src, pos
				apply(fmt.Sprintf("splice[%d]@%s", si, pos), func(d *etree.Document) bool {
					r := d.Root()
					g := attachStandalone(src)
					id := g.SelectAttrValue("ID", "")
					for _, a := range allAssertions(r) {
						if a.SelectAttrValue("ID", "") == id {
							return false // already present
						}
					}
					switch pos {
					case "first":
						insertAfterIssuer(r, g)
					case "last":
						r.AddChild(g)
					case "Extensions":
						wr := wrapper("Extensions")
						wr.AddChild(g)
						insertAfterIssuer(r, wr)
					case "Advice":
						as := allAssertions(r)
						if len(as) == 0 {
							return false
						}
						wr := wrapper("Advice")
						wr.AddChild(g)
						as[0].AddChild(wr)
					}
					return true
				})
			}
		}
		// P. wrap an assertion
		for j := 0; j < nA; j++ {
			for _, kind := range wrapperKinds {
				j, kind := j, kind
				apply(fmt.Sprintf("wrap[%d]/%s", j, kind), func(d *etree.Document) bool {
					a := A(d, j)
					p := a.Parent()
					if p == nil {
						return false
					}
					idx := a.Index()
					p.RemoveChildAt(idx)
					wr := wrapper(kind)
					wr.AddChild(a)
					p.InsertChildAt(idx, wr)
					return true
				})
			}
		}
		// Q. duplicate an assertion with evil content and the same ID (XSW)
		for j := 0; j < nA; j++ {
			for _, where := range []string{"before", "after", "inside-signature"} {
				j, where := j, where
				apply(fmt.Sprintf("dup-evil[%d]/%s", j, where), func(d *etree.Document) bool {
					a := A(d, j)
					p := a.Parent()
					if p == nil {
						return false
					}
					c := a.Copy()
					if sg := ownSig(c); sg != nil {
						c.RemoveChild(sg)
					}
					evilEdit(c, "nameid")
					switch where {
					case "before":
						p.InsertChildAt(a.Index(), c)
					case "after":
						p.InsertChildAt(a.Index()+1, c)
					case "inside-signature":
						// swap: the evil copy takes the original's place (keeping the signature
						// element), the original goes under ds:Object inside that signature
						sg := ownSig(a)
						if sg == nil {
							return false
						}
						a.RemoveChild(sg)
						idx := a.Index()
						p.RemoveChildAt(idx)
						obj := wrapper("Object")
						obj.AddChild(a)
						sg.AddChild(obj)
						insertAfterIssuer(c, sg)
						p.InsertChildAt(idx, c)
					}
					return true
				})
			}
		}
		// R. insert an attacker-made assertion
		for _, idMode := range []string{"fresh", "collide"} {
			for _, pos := range []string{"first", "last"} {
				idMode, pos := idMode, pos
				apply(fmt.Sprintf("insert-evil/%s/%s", idMode, pos), func(d *etree.Document) bool {
					r := d.Root()
					id := "_evil-1"
					if idMode == "collide" {
						as := allAssertions(r)
						if len(as) == 0 {
							return false
						}
						id = as[0].SelectAttrValue("ID", "")
					} else {
						for _, a := range allAssertions(r) {
							if a.SelectAttrValue("ID", "") == id {
								return false
							}
						}
					}
					e := evilAssertion(id)
					if pos == "first" {
						insertAfterIssuer(r, e)
					} else {
						r.AddChild(e)
					}
					return true
				})
			}
		}
		// S. wrap the whole document in an attacker-made Response
		for _, idMode := range []string{"fresh", "root", "assertion"} {
			for _, where := range []string{"Extensions", "direct", "Object"} {
				idMode, where := idMode, where
				apply(fmt.Sprintf("wrap-root/%s/%s", idMode, where), func(d *etree.Document) bool {
					old := d.Root()
					if old.Tag != "Response" {
						return false
					}
					id := "_evil-resp"
					switch idMode {
					case "root":
						id = old.SelectAttrValue("ID", id)
					case "assertion":
						as := allAssertions(old)
						if len(as) == 0 {
							return false
						}
						id = as[0].SelectAttrValue("ID", id)
					}
					spec := idp.DefaultResponse(0)
					spec.ID = id
					nd := idp.BuildResponse(spec)
					nr := nd.Root()
					nr.AddChild(evilAssertion("_evil-1"))
					d.RemoveChild(old)
					switch where {
					case "direct":
						nr.AddChild(old)
					default:
						wr := wrapper(where)
						wr.AddChild(old)
						nr.AddChild(wr)
					}
					nd.RemoveChild(nr)
					d.SetRoot(nr)
					return true
				})
			}
		}
		// T. hide an assertion in the region an enveloped signature does not cover
		for j := 0; j < nA; j++ {
			for k := 0; k < nS; k++ {
				j, k := j, k
				apply(fmt.Sprintf("into-signature[%d]->%d", j, k), func(d *etree.Document) bool {
					a, sg := A(d, j), S(d, k)
					if a.Parent() == nil {
						return false
					}
					for p := sg; p != nil; p = p.Parent() {
						if p == a {
							return false
						}
					}
					a.Parent().RemoveChild(a)
					obj := wrapper("Object")
					obj.AddChild(a)
					sg.AddChild(obj)
					return true
				})
			}
		}
	}
	return out
}

// lexical presentations of a state that a tree cannot express: applied at the leaves of the
// search as extra inputs (each must leave a conforming parser's view unchanged or is an
// attack vector the validator must survive).
func lexVariants(xml []byte) map[string][]byte {
	out := map[string][]byte{}
	s := string(xml)
	out["xml-decl"] = []byte(`<?xml version="1.0" encoding="UTF-8"?>` + "\n" + s)
	out["doctype-entity"] = []byte(`<!DOCTYPE foo [<!ENTITY xxe "` + evilName + `">]>` + s)
	// round-trip instability vectors (mattermost advisories): a namespace prefix named xmlns
	// and an attribute in that pseudo-namespace on the root
	if i := strings.Index(s, ">"); i > 0 {
		out["xmlns-xmlns"] = []byte(s[:i] + ` xmlns:xmlns="urn:example:evil" xmlns:ID="_evil"` + s[i:])
		out["empty-prefix-attr"] = []byte(s[:i] + ` :ID="_evil"` + s[i:])
		out["dup-ns-decl"] = []byte(s[:i] + ` xmlns:saml="urn:example:evil" xmlns:saml="` + idp.NSA + `"` + s[i:])
		out["attr-x:y:z"] = []byte(s[:i] + ` x:y:z="1"` + s[i:])
		out["empty-local-attr"] = []byte(s[:i] + ` xmlns:a="urn:x" a:="1"` + s[i:])
	}
	if j := strings.Index(s, "<saml:Assertion"); j > 0 {
		out["child-empty-prefix-Assertion"] = []byte(s[:j] + `<:Assertion ID="_evil-1"/>` + s[j:])
		out["child-x:::y"] = []byte(s[:j] + `<x:::y/>` + s[j:])
		out["assertion-x:saml:Assertion"] = []byte(strings.Replace(s, "<saml:Assertion", "<x:saml:Assertion", 1))
	}
	out["doctype-gt-in-entity"] = []byte(`<!DOCTYPE foo [<!ENTITY a '>'>]>` + s)
	out["directive-quote"] = []byte(`<!x "-->">` + s)
	if i := strings.Index(s, "alice@example.com"); i > 0 {
		out["cdata-nameid"] = []byte(s[:i] + "<![CDATA[alice@]]>example.com" + s[i+len("alice@example.com"):])
		out["charref-nameid"] = []byte(s[:i] + "&#97;lice&#x40;example.com" + s[i+len("alice@example.com"):])
	}
	return out
}
