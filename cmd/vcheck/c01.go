package main

import (
	"encoding/base64"
	"encoding/json"
	"fmt"
	"sort"
	"strings"
	"time"

	"github.com/beevik/etree"
	saml2 "github.com/russellhaering/gosaml2"
	"github.com/russellhaering/gosaml2/types"

	"verif/idp"
	"verif/mc"
	"verif/oracle"
	"verif/world"
)

// C01 / C04 / C07 — invariants evaluated on every state of the attacker transition system.
//
// The same exploration serves three properties; each run reports only the finding keys of
// the property it was started for (keys are prefixed with the property id).

type attCfg struct {
	Name string
	Conf world.SPConf
}

var attCfgs = []attCfg{
	{"store[K1]", world.SPConf{Store: []string{"K1"}}},
	{"store[K1,K2]", world.SPConf{Store: []string{"K1", "K2"}}},
	{"store[K2]", world.SPConf{Store: []string{"K2"}}},
	{"skip-signature", world.SPConf{Store: []string{"K1"}, SkipSig: true}},
	// a certificate store that holds no certificate (signature checking on): nothing is signed
	// by a key in it, so nothing may be accepted
	{"store[]", world.SPConf{Store: []string{}}},
	// no certificate store at all (a signed message makes the dependency panic there: that is a
	// configuration outside C09's domain and not judged; what is judged is that nothing is accepted)
	{"store=nil", world.SPConf{Store: []string{}, NilStore: true}},
	// a provider that has no key of its own (nothing to decrypt with, nothing to sign with): what
	// it accepts must satisfy the same invariants
	{"store[K1]/no-sp-key", world.SPConf{Store: []string{"K1"}, EncField: "-"}},
}

// attCfgList is the list of configurations a search judges its states under: the three
// signature-checking stores, the empty store for shallow states, skip-signature for C04.
func attCfgList(prop string, shallow bool) []int {
	l := []int{0, 1, 2}
	if prop == "C04" {
		l = append(l, 3)
	}
	if shallow {
		l = append(l, 4, 5, 6)
	}
	return l
}

type attCase struct {
	Input string `json:"input"` // the exact encoded message
	Cfg   int    `json:"cfg"`
	Path  string `json:"path"`
}

// directChildTuples computes, by the harness's own parse, the tuples of the assertions that
// are direct children of the root (EncryptedAssertion children replaced by what the harness's
// own decryptor finds inside).
func directChildTuples(xml []byte) (tuples []string, encDirect, encElsewhere int, rootTag string, ok bool) {
	d := parseDoc(xml)
	if d == nil || d.Root() == nil {
		return nil, 0, 0, "", false
	}
	root := d.Root()
	rootTag = root.Tag
	for _, c := range root.ChildElements() {
		switch {
		case oracle.Is(c, idp.NSA, "Assertion"):
			tuples = append(tuples, oracle.AssertionFromElement(c).Key())
		case oracle.Is(c, idp.NSA, "EncryptedAssertion"):
			encDirect++
			if pt := idp.DecryptEA(c, "KS"); pt != nil {
				if pd := parseDoc(pt); pd != nil && pd.Root() != nil && oracle.Is(pd.Root(), idp.NSA, "Assertion") {
					tuples = append(tuples, oracle.AssertionFromElement(pd.Root()).Key())
				}
			}
		}
	}
	for _, e := range allOf(root, idp.NSA, "EncryptedAssertion") {
		if e.Parent() != root {
			encElsewhere++
		}
	}
	return tuples, encDirect, encElsewhere, rootTag, true
}

func sortedCopy(s []string) []string {
	c := append([]string(nil), s...)
	sort.Strings(c)
	return c
}

func sameMultiset(a, b []string) bool {
	if len(a) != len(b) {
		return false
	}
	x, y := sortedCopy(a), sortedCopy(b)
	for i := range x {
		if x[i] != y[i] {
			return false
		}
	}
	return true
}

func shortTuple(k string) string {
	var t oracle.AssertionT
	json.Unmarshal([]byte(k), &t)
	return fmt.Sprintf("{ID=%s NameID=%q}", t.ID, t.NameID)
}

// attJudge runs both SSO entry points on the input under the configuration and evaluates
// every invariant. It returns finding keys for C01, C04 and C07.
//
// sp, when non-nil, is a live instance that is reconfigured in place for this configuration
// (certificate store and skip option reassigned, as an operator rotating IdP certificates
// would): a decision must depend on the configuration in force, not on an earlier one.
func attJudge(input string, xml []byte, cfgi int, sp *saml2.SAMLServiceProvider) (keys []string, detail string, class string) {
	w := theAttWorld()
	cfg := attCfgs[cfgi]
	store := cfg.Conf.Store
	if sp == nil {
		sp = cfg.Conf.Build()
	} else {
		sp.IDPCertificateStore = world.Store(cfg.Conf.Store...)
		if cfg.Conf.NilStore {
			sp.IDPCertificateStore = nil
		}
		sp.SkipSignatureValidation = cfg.Conf.SkipSig
		sp.SPKeyStore = cfg.Conf.Build().SPKeyStore
	}
	resp, r1 := validateResponse(sp, input)
	// RetrieveAssertionInfo is a thin wrapper around ValidateEncodedResponse: it is run whenever
	// validation accepted, and on every 8th rejected input (by input hash) to check agreement
	var info *saml2.AssertionInfo
	r2 := callResult{NilRes: true, Err: errInfo{Text: "(not called)"}}
	if r1.Accepted() || len(input)%16 == 0 {
		info, r2 = retrieveInfo(sp, input)
	}
	detail = fmt.Sprintf("cfg=%s ValidateEncodedResponse: accepted=%v err=%q panic=%q | RetrieveAssertionInfo: accepted=%v err=%q", cfg.Name, r1.Accepted(), r1.Err.Text, r1.Panic, r2.Accepted(), r2.Err.Text)
	add := func(k string) { keys = append(keys, k) }
	if (r1.Panic != "" || r2.Panic != "") && cfg.Conf.NilStore {
		// the dependency dereferences the missing store: outside the configurations C09 speaks of
		return nil, detail, "rejected"
	}
	if r1.Panic != "" || r2.Panic != "" {
		add("C09/attacker-state/panic")
		if d := parseDoc(xml); d != nil && d.Root() != nil && len(allOf(d.Root(), idp.NSA, "EncryptedAssertion")) > 0 {
			// a panic is not a refusal: the caller's process dies instead of getting an error
			add("C07/encrypted-assertion-state/panic-instead-of-rejection")
		}
	}
	if r2.Accepted() && !r1.Accepted() {
		add("C01/summary-accepted-but-validation-rejected")
	}
	if !r1.Accepted() {
		return keys, detail, "rejected"
	}
	direct, _, encElsewhere, rootTag, ok := directChildTuples(xml)
	var got []string
	for i := range resp.Assertions {
		got = append(got, oracle.FromAssertion(&resp.Assertions[i]).Key())
	}
	names := []string{}
	for _, g := range got {
		names = append(names, shortTuple(g))
	}
	detail += fmt.Sprintf(" | respFlag=%v returned=%v", resp.SignatureValidated, names)

	if cfg.Conf.SkipSig {
		// C04: with signature validation switched off every indicator is false
		if resp.SignatureValidated {
			add("C04/skip-signature/response-flag-true")
		}
		for i := range resp.Assertions {
			if resp.Assertions[i].SignatureValidated {
				add("C04/skip-signature/assertion-flag-true")
			}
		}
		if r2.Accepted() && info.ResponseSignatureValidated {
			add("C04/skip-signature/summary-flag-true")
		}
		return keys, detail, "accepted/skip"
	}

	class = "accepted/unsigned-root"
	if resp.SignatureValidated {
		class = "accepted/signed-root"
	}
	// C01 (i): everything returned was covered by a signature of a store key
	for i, g := range got {
		if !w.pool.in(w.pool.covered, store, g) {
			add("C01/returned-assertion-not-signed-by-idp")
			detail += fmt.Sprintf(" | assertion[%d] %s is not in the signed pool", i, shortTuple(g))
		}
	}
	if resp.SignatureValidated {
		// C04: the flag implies this very Response equals, field for field, one the IdP signed
		rt := oracle.FromResponse(resp)
		if !w.pool.in(w.pool.resp, store, rt.Key()) {
			add("C04/response-flag-on-unsigned-or-altered-response")
			detail += " | Response tuple not in the pool of IdP-signed Responses: " + rt.ID
		}
	} else {
		// C01 (ii): unsigned Response => every assertion individually signed ...
		for i, g := range got {
			if !w.pool.in(w.pool.own, store, g) {
				add("C01/unsigned-response-with-assertion-not-individually-signed")
			}
			// C04: ... and individually marked validated
			if !resp.Assertions[i].SignatureValidated {
				add("C04/unsigned-response-assertion-not-marked-validated")
			}
		}
	}
	// C04: an assertion flag implies that assertion carries its own honoured signature
	for i, g := range got {
		if resp.Assertions[i].SignatureValidated && !w.pool.in(w.pool.own, store, g) {
			add("C04/assertion-flag-without-own-signature")
		}
	}
	// C01 (iii): honoured assertions are exactly the direct children of the root
	if ok {
		if rootTag != "Response" {
			add("C01/root-is-not-a-Response/" + rootTag)
		}
		if !sameMultiset(got, direct) {
			add("C01/returned-assertions-differ-from-direct-children")
			dn := []string{}
			for _, g := range direct {
				dn = append(dn, shortTuple(g))
			}
			detail += fmt.Sprintf(" | direct children (harness parse): %v", dn)
		}
		if encElsewhere > 0 && !resp.SignatureValidated {
			add("C07/encrypted-assertion-not-direct-child-accepted")
		}
	}
	// C07: the same obligations apply when the state carries an EncryptedAssertion
	if ok && encDirectOrAny(xml) {
		for _, k := range keys {
			if strings.HasPrefix(k, "C01/") {
				add("C07/encrypted-assertion-state/" + strings.TrimPrefix(k, "C01/"))
				break
			}
		}
	}
	// C01 (iv) / C04: the summary mirrors the first returned assertion and the Response flag
	if r2.Accepted() {
		if info.ResponseSignatureValidated != resp.SignatureValidated {
			add("C04/summary-flag-differs-from-response-flag")
		}
		if len(got) > 0 {
			var t oracle.AssertionT
			json.Unmarshal([]byte(got[0]), &t)
			if info.NameID != t.NameID || info.SessionIndex != t.SessionIndex {
				add("C01/summary-not-from-first-verified-assertion")
			}
			for _, at := range t.Attrs {
				if !sameList(info.Values.GetAll(at.Name), at.Values) {
					add("C01/summary-attribute-values-differ")
				}
			}
			if len(info.Assertions) != len(got) {
				add("C01/summary-assertion-list-differs")
			}
		}
	} else if len(got) > 0 {
		// ValidateEncodedResponse accepted, RetrieveAssertionInfo did not: allowed (conditions of
		// the first assertion may be missing); nothing to compare
		_ = info
	}
	return keys, detail, class
}

func sameList(a, b []string) bool {
	if len(a) != len(b) {
		return false
	}
	for i := range a {
		if a[i] != b[i] {
			return false
		}
	}
	return true
}

func attReplay(prop string) mc.ReplayFunc {
	return func(raw json.RawMessage) ([]string, string) {
		var h c01Held
		if json.Unmarshal(raw, &h) == nil && h.Held {
			return c01HeldExec(h)
		}
		var c attCase
		if err := json.Unmarshal(raw, &c); err != nil {
			return nil, err.Error()
		}
		xml := decodeInput(c.Input)
		// the exploration judges the configurations in order on one live instance
		sp := attCfgs[0].Conf.Build()
		var keys []string
		var detail string
		for ci := 0; ci <= c.Cfg; ci++ {
			keys, detail, _ = attJudge(c.Input, xml, ci, sp)
		}
		return filterKeys(keys, prop), "path: " + c.Path + "\n" + detail
	}
}

// decodeInput undoes the harness's own presentation (base64, optional raw DEFLATE).
func decodeInput(in string) []byte {
	raw, err := base64.StdEncoding.DecodeString(in)
	if err != nil {
		return nil
	}
	if parseDoc(raw) != nil && len(raw) > 0 && raw[0] == '<' {
		return raw
	}
	if out, err := inflate(raw); err == nil {
		return out
	}
	return raw
}

func filterKeys(keys []string, prop string) []string {
	var out []string
	for _, k := range keys {
		if strings.HasPrefix(k, prop+"/") {
			out = append(out, k)
		}
	}
	return out
}

// attExplore runs the BFS and judges every state under every configuration.
func attExplore(r *mc.Run, prop string) {
	w := theAttWorld()
	depth := 2
	if r.Thorough() {
		depth = 3
	}
	var init []mc.BFSState
	for _, m := range w.msgs {
		// quick: five of the eight genuine messages; thorough: depth 3 from three of them and
		// depth 2 from the rest (second search below)
		if !r.Thorough() && (m.Name == "g3" || m.Name == "g4" || m.Name == "g1e" || m.Name == "g6") {
			continue
		}
		if !r.Thorough() && prop == "C07" && m.Name == "g1" {
			continue
		}
		if r.Thorough() && !(m.Name == "g1" || m.Name == "g2" || m.Name == "g5") {
			continue
		}
		init = append(init, attState{XML: m.XML, Path: m.Name})
	}
	r.Set("initial_states", len(init))
	r.Set("bfs_depth_bound", depth)
	visit := func(s mc.BFSState, d int) {
		st := s.(attState)
		in := st.Encoded()
		inputs := map[string][]byte{"": st.XML}
		if d <= 1 {
			// lexical presentations of shallow states
			for name, b := range lexVariants(st.XML) {
				inputs[name] = b
			}
		}
		for name, xml := range inputs {
			enc := in
			if name != "" {
				enc = idp.Encode(xml, st.Deflate)
			}
			sp := attCfgs[0].Conf.Build()
			for _, ci := range attCfgList(prop, d <= 1) {
				keys, detail, class := attJudge(enc, xml, ci, sp)
				r.Eval(1)
				r.Bucket(class)
				if class != "rejected" {
					r.Nontrivial(enc + attCfgs[ci].Name)
				}
				for _, k := range filterKeys(keys, prop) {
					r.Violation(k, "path: "+st.Path+" "+name+"\n  "+detail, attCase{Input: enc, Cfg: ci, Path: st.Path + " " + name})
				}
			}
		}
		if d == 1 && len(st.XML)%7 == 0 {
			r.Sample(map[string]interface{}{"path": st.Path, "bytes": len(st.XML), "deflate": st.Deflate})
		}
	}
	// every genuine message is judged as it is (all configurations, all lexical presentations),
	// also those the search of this tier does not start from
	isInit := map[string]bool{}
	for _, s := range init {
		isInit[s.(attState).Path] = true
	}
	genuineOnly := 0
	for _, m := range w.msgs {
		if !isInit[m.Name] && !(r.Thorough() && !(m.Name == "g1" || m.Name == "g2" || m.Name == "g5")) {
			visit(attState{XML: m.XML, Path: m.Name}, 0)
			genuineOnly++
		}
	}
	r.Set("genuine_messages_judged_without_being_expanded", genuineOnly)
	res := mc.BFS(init, depth, r.Expired, func(s mc.BFSState) []mc.BFSState {
		st := s.(attState)
		// operators that sign with the attacker's key are enabled at the first two levels only
		return successors(st, strings.Count(st.Path, " > ") < 2)
	}, visit)
	r.State(res.States)
	r.Transition(res.Transitions)
	r.Trace(res.States)
	r.Set("bfs_states_per_level", res.PerLevel)
	r.Set("bfs_depth_completed", res.DepthCompleted)
	if !res.Complete {
		r.Cap(fmt.Sprintf("BFS stopped by the internal deadline; depth completed %d", res.DepthCompleted))
	}
	if r.Thorough() {
		var init2 []mc.BFSState
		for _, m := range w.msgs {
			if !(m.Name == "g1" || m.Name == "g2" || m.Name == "g5") {
				init2 = append(init2, attState{XML: m.XML, Path: m.Name})
			}
		}
		res2 := mc.BFS(init2, 2, r.Expired, func(s mc.BFSState) []mc.BFSState { return successors(s.(attState), true) }, visit)
		r.State(res2.States)
		r.Transition(res2.Transitions)
		r.Trace(res2.States)
		r.Set("bfs2_states_per_level", res2.PerLevel)
		if !res2.Complete {
			r.Cap("second BFS (depth 2 from the remaining genuine messages) stopped by the internal deadline")
		}
	}
}

// c01Held: an accepted result is kept by its caller while another genuine message is validated
// (on the same instance or on another one); what it says about the first message's assertions
// must not change.
type c01Held struct {
	Held   bool `json:"held_result"`
	First  int  `json:"first"`  // index into the genuine messages
	Second int  `json:"second"` // index into the genuine messages
	SameSP bool `json:"same_instance"`
}

func c01HeldExec(c c01Held) (keys []string, detail string) {
	w := theAttWorld()
	conf := world.SPConf{Store: []string{"K1", "K2", "K3"}}
	sp1 := conf.Build()
	sp2 := sp1
	if !c.SameSP {
		sp2 = conf.Build()
	}
	enc := func(i int) string { return idp.Encode(w.msgs[i].XML, false) }
	r1, c1 := validateResponse(sp1, enc(c.First))
	detail = fmt.Sprintf("case=%+v first=%s second=%s | first accepted=%v", c, w.msgs[c.First].Name, w.msgs[c.Second].Name, c1.Accepted())
	if !c1.Accepted() {
		return nil, detail
	}
	was := snapshotOf(r1)
	_, c2 := validateResponse(sp2, enc(c.Second))
	detail += fmt.Sprintf(" second accepted=%v", c2.Accepted())
	if now := snapshotOf(r1); now != was {
		return []string{"C01/result-held-by-the-caller-changed-by-a-later-validation"}, detail + fmt.Sprintf(" | the first result was %.300s and is now %.300s", was, now)
	}
	return nil, detail
}

func c01Run(r *mc.Run) {
	// sequential: results held across a later validation (all ordered pairs of genuine messages)
	nm := len(theAttWorld().msgs)
	for i := 0; i < nm; i++ {
		for j := 0; j < nm; j++ {
			for _, same := range []bool{true, false} {
				h := c01Held{Held: true, First: i, Second: j, SameSP: same}
				keys, detail := c01HeldExec(h)
				r.Eval(2)
				r.Bucket("held-result")
				for _, k := range keys {
					r.Violation(k, detail, h)
				}
			}
		}
	}
	r.Rule = "explicit-state BFS over attacker edits (strip/move/re-sign signatures, edit signed fields, reference and digest tampering, comments, namespace tricks, message-type confusion, encryption, splicing genuine signed assertions, wrapping, ID-colliding duplicates, hiding content inside ds:Signature) from 9 genuine messages, plus lexical presentations (XML declaration, DOCTYPE entity, round-trip-instability vectors, CDATA, character references) of shallow states, plus every ordered tree of <=N nodes over the wrapping alphabet; each state judged under 4 configurations (shallow ones also under an empty and a missing certificate store) by both SSO entry points; every ordered pair of genuine messages validated one after the other with the first result held by its caller; non-trivial = the state was accepted under that configuration; distinct = distinct (input, configuration)"
	r.Assume("RSA/ECDSA signatures unforgeable", "etree parser used by the harness to apply edits and to find the direct children of the root", "goxmldsig canonicalisers used by the harness IdP")
	attExplore(r, r.Prop)
	treeExplore(r, r.Prop)
}

func init() {
	for _, p := range []string{"C01", "C04", "C07"} {
		p := p
		_ = p
	}
	register("C01", &check{run: c01Run, replay: attReplay("C01"), quick: 360 * time.Second, thor: 1500 * time.Second})
}

var _ = etree.NewDocument
var _ = saml2.StatusCodeSuccess
var _ types.Response

// encDirectOrAny reports whether the document contains an EncryptedAssertion anywhere.
func encDirectOrAny(xml []byte) bool {
	d := parseDoc(xml)
	return d != nil && d.Root() != nil && len(allOf(d.Root(), idp.NSA, "EncryptedAssertion")) > 0
}
