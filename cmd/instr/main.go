// instr produces the scheduler overlay from /repo's CURRENT working tree:
//
//	instr -repo /repo -out <scratch dir> -shim /verif/vsched/vsched.go
//
// For every non-test .go file of the library it (1) rebinds the import "sync" to the shim
// package, (2) inserts vsched.Yield before every statement that mentions shared mutable
// state — a package-level variable that some function writes (assigns, increments or takes
// the address of), a field of SAMLServiceProvider that some function writes, or a call of
// rand.Read — and writes the rewritten file to the scratch directory. It prints the
// overlay JSON on stdout and a report (points inserted, constructs it cannot model) on
// stderr. Nothing under /repo is touched; nothing is cached between runs.
package main

import (
	"bytes"
	"encoding/json"
	"flag"
	"fmt"
	"go/ast"
	"go/parser"
	"go/printer"
	"go/token"
	"os"
	"path/filepath"
	"sort"
	"strconv"
	"strings"
)

const shimPath = "github.com/russellhaering/gosaml2/vsched"

type pkgInfo struct {
	dir   string
	files map[string]*ast.File
	fset  *token.FileSet
}

func main() {
	repo := flag.String("repo", "/repo", "repository root")
	out := flag.String("out", "", "scratch directory for rewritten files")
	shim := flag.String("shim", "/verif/vsched/vsched.go", "shim source")
	flag.Parse()
	if *out == "" {
		fmt.Fprintln(os.Stderr, "instr: -out required")
		os.Exit(2)
	}
	overlay := map[string]string{filepath.Join(*repo, "vsched", "vsched.go"): *shim}
	report := map[string]interface{}{}
	var notModelled []string
	totalYields := 0
	for _, sub := range []string{"", "uuid", "types"} {
		dir := filepath.Join(*repo, sub)
		fset := token.NewFileSet()
		pkgs, err := parser.ParseDir(fset, dir, func(fi os.FileInfo) bool { return !strings.HasSuffix(fi.Name(), "_test.go") }, parser.ParseComments)
		if err != nil {
			fmt.Fprintln(os.Stderr, "instr: parse:", err)
			os.Exit(2)
		}
		for _, pkg := range pkgs {
			if strings.HasSuffix(pkg.Name, "_test") || pkg.Name == "main" {
				continue
			}
			vars, fields := sharedState(pkg)
			names := []string{}
			for v := range vars {
				names = append(names, "var "+v)
			}
			for f := range fields {
				names = append(names, "field ."+f)
			}
			sort.Strings(names)
			report["shared_state/"+pkg.Name] = names
			for path, f := range pkg.Files {
				n, nm := rewrite(fset, f, vars, fields, filepath.Base(path))
				notModelled = append(notModelled, nm...)
				totalYields += n
				var buf bytes.Buffer
				if err := printer.Fprint(&buf, fset, f); err != nil {
					fmt.Fprintln(os.Stderr, "instr: print:", err)
					os.Exit(2)
				}
				dst := filepath.Join(*out, sub, filepath.Base(path))
				os.MkdirAll(filepath.Dir(dst), 0755)
				if err := os.WriteFile(dst, buf.Bytes(), 0644); err != nil {
					fmt.Fprintln(os.Stderr, "instr:", err)
					os.Exit(2)
				}
				overlay[path] = dst
			}
		}
	}
	report["yields_inserted"] = totalYields
	report["not_modelled"] = notModelled
	rb, _ := json.MarshalIndent(report, "", " ")
	os.WriteFile(filepath.Join(*out, "instr-report.json"), rb, 0644)
	fmt.Fprintln(os.Stderr, string(rb))
	ob, _ := json.MarshalIndent(map[string]interface{}{"Replace": overlay}, "", " ")
	fmt.Println(string(ob))
}

// sharedState finds package-level variables and SAMLServiceProvider fields that some
// function writes.
func sharedState(pkg *ast.Package) (vars, fields map[string]bool) {
	pkgVars := map[string]bool{}
	spFields := map[string]bool{}
	for _, f := range pkg.Files {
		for _, d := range f.Decls {
			gd, ok := d.(*ast.GenDecl)
			if !ok {
				continue
			}
			for _, s := range gd.Specs {
				switch sp := s.(type) {
				case *ast.ValueSpec:
					if gd.Tok == token.VAR {
						for _, n := range sp.Names {
							pkgVars[n.Name] = true
						}
					}
				case *ast.TypeSpec:
					if st, ok := sp.Type.(*ast.StructType); ok && sp.Name.Name == "SAMLServiceProvider" {
						for _, fl := range st.Fields.List {
							for _, n := range fl.Names {
								spFields[n.Name] = true
							}
						}
					}
				}
			}
		}
	}
	vars, fields = map[string]bool{}, map[string]bool{}
	mark := func(e ast.Expr) {
		// walk down selector / index / star chains to the root
		for {
			switch x := e.(type) {
			case *ast.SelectorExpr:
				if spFields[x.Sel.Name] {
					fields[x.Sel.Name] = true
				}
				e = x.X
				continue
			case *ast.IndexExpr:
				e = x.X
				continue
			case *ast.StarExpr:
				e = x.X
				continue
			case *ast.ParenExpr:
				e = x.X
				continue
			case *ast.Ident:
				if pkgVars[x.Name] {
					vars[x.Name] = true
				}
			}
			return
		}
	}
	for _, f := range pkg.Files {
		for _, d := range f.Decls {
			fd, ok := d.(*ast.FuncDecl)
			if !ok || fd.Body == nil {
				continue
			}
			ast.Inspect(fd.Body, func(n ast.Node) bool {
				switch x := n.(type) {
				case *ast.AssignStmt:
					if x.Tok != token.DEFINE {
						for _, l := range x.Lhs {
							mark(l)
						}
					}
				case *ast.IncDecStmt:
					mark(x.X)
				case *ast.UnaryExpr:
					if x.Op == token.AND {
						mark(x.X)
					}
				case *ast.SliceExpr:
					// slicing a package-level array hands out a writable reference to it
					mark(x.X)
				case *ast.CallExpr:
					// a package-level variable passed to a function may be mutated through it
					for _, a := range x.Args {
						switch y := a.(type) {
						case *ast.Ident:
							if pkgVars[y.Name] {
								vars[y.Name] = true
							}
						case *ast.SliceExpr:
							mark(y.X)
						}
					}
					// a method called on a field or package variable may mutate it (sync.Once.Do,
					// Mutex.Lock, map stores through helper methods ...)
					if se, ok := x.Fun.(*ast.SelectorExpr); ok {
						if inner, ok := se.X.(*ast.SelectorExpr); ok && spFields[inner.Sel.Name] && isSyncish(inner.Sel.Name) {
							// lock fields are scheduling points by themselves
							_ = inner
						} else if id, ok := se.X.(*ast.Ident); ok && pkgVars[id.Name] {
							vars[id.Name] = true
						}
					}
				}
				return true
			})
		}
	}
	return vars, fields
}

func isSyncish(name string) bool {
	l := strings.ToLower(name)
	return strings.HasSuffix(l, "mu") || strings.Contains(l, "mutex") || strings.Contains(l, "once") || strings.Contains(l, "lock")
}

// mentions reports whether node n (not descending into nested blocks or function literals)
// refers to shared state. Package-level variables are matched by name (a local variable that
// shadows one only adds a harmless scheduling point).
func mentions(n ast.Node, vars, fields map[string]bool) bool {
	found := false
	var visit func(x ast.Node) bool
	visit = func(x ast.Node) bool {
		if found {
			return false
		}
		switch y := x.(type) {
		case *ast.BlockStmt:
			return x == n
		case *ast.FuncLit:
			return false
		case *ast.SelectorExpr:
			if fields[y.Sel.Name] {
				found = true
			}
			if id, ok := y.X.(*ast.Ident); ok && id.Name == "rand" && y.Sel.Name == "Read" {
				found = true
			}
			ast.Inspect(y.X, visit) // the selected name itself is not a variable reference
			return false
		case *ast.KeyValueExpr:
			ast.Inspect(y.Value, visit) // struct literal keys are field names
			return false
		case *ast.Ident:
			if vars[y.Name] {
				found = true
			}
		}
		return true
	}
	ast.Inspect(n, visit)
	return found
}

func yieldStmt(label string) ast.Stmt {
	return &ast.ExprStmt{X: &ast.CallExpr{
		Fun:  &ast.SelectorExpr{X: ast.NewIdent("vsched"), Sel: ast.NewIdent("Yield")},
		Args: []ast.Expr{&ast.BasicLit{Kind: token.STRING, Value: strconv.Quote(label)}},
	}}
}

func rewrite(fset *token.FileSet, f *ast.File, vars, fields map[string]bool, base string) (yields int, notModelled []string) {
	// imports
	usesSync := false
	for _, im := range f.Imports {
		p, _ := strconv.Unquote(im.Path.Value)
		switch p {
		case "sync":
			usesSync = true
			im.Path.Value = strconv.Quote(shimPath)
			im.Name = ast.NewIdent("sync")
		case "sync/atomic":
			notModelled = append(notModelled, base+": imports sync/atomic (atomic operations are not scheduling points)")
		}
	}
	if usesSync {
		ast.Inspect(f, func(n ast.Node) bool {
			if se, ok := n.(*ast.SelectorExpr); ok {
				if id, ok := se.X.(*ast.Ident); ok && id.Name == "sync" {
					switch se.Sel.Name {
					case "Mutex", "RWMutex", "Once", "Locker":
					default:
						notModelled = append(notModelled, fmt.Sprintf("%s: sync.%s is passed through, not modelled", base, se.Sel.Name))
					}
				}
			}
			return true
		})
	}
	var processList func(list []ast.Stmt) []ast.Stmt
	var processStmt func(s ast.Stmt)
	processStmt = func(s ast.Stmt) {
		switch x := s.(type) {
		case *ast.BlockStmt:
			x.List = processList(x.List)
		case *ast.IfStmt:
			processStmt(x.Body)
			if x.Else != nil {
				processStmt(x.Else)
			}
		case *ast.ForStmt:
			processStmt(x.Body)
		case *ast.RangeStmt:
			processStmt(x.Body)
		case *ast.SwitchStmt:
			processStmt(x.Body)
		case *ast.TypeSwitchStmt:
			processStmt(x.Body)
		case *ast.SelectStmt:
			processStmt(x.Body)
		case *ast.CaseClause:
			x.Body = processList(x.Body)
		case *ast.CommClause:
			x.Body = processList(x.Body)
		case *ast.LabeledStmt:
			processStmt(x.Stmt)
		}
		// function literals inside the statement
		ast.Inspect(s, func(n ast.Node) bool {
			if fl, ok := n.(*ast.FuncLit); ok {
				fl.Body.List = processList(fl.Body.List)
				return false
			}
			if _, ok := n.(*ast.BlockStmt); ok && n != s {
				return false
			}
			return true
		})
	}
	processList = func(list []ast.Stmt) []ast.Stmt {
		var out []ast.Stmt
		for _, s := range list {
			head := ast.Node(s)
			// for compound statements only the header counts
			switch x := s.(type) {
			case *ast.IfStmt:
				head = &ast.IfStmt{Init: x.Init, Cond: x.Cond, Body: &ast.BlockStmt{}}
			case *ast.ForStmt:
				head = &ast.ForStmt{Init: x.Init, Cond: x.Cond, Post: x.Post, Body: &ast.BlockStmt{}}
			case *ast.RangeStmt:
				head = &ast.RangeStmt{Key: x.Key, Value: x.Value, X: x.X, Tok: x.Tok, Body: &ast.BlockStmt{}}
			case *ast.SwitchStmt:
				head = &ast.SwitchStmt{Init: x.Init, Tag: x.Tag, Body: &ast.BlockStmt{}}
			case *ast.TypeSwitchStmt:
				head = &ast.TypeSwitchStmt{Init: x.Init, Assign: x.Assign, Body: &ast.BlockStmt{}}
			case *ast.BlockStmt:
				head = &ast.BlockStmt{}
			}
			if _, isDecl := s.(*ast.DeclStmt); !isDecl && mentions(head, vars, fields) {
				pos := fset.Position(s.Pos())
				out = append(out, yieldStmt(fmt.Sprintf("%s:%d", base, pos.Line)))
				yields++
			}
			processStmt(s)
			out = append(out, s)
		}
		return out
	}
	for _, d := range f.Decls {
		if fd, ok := d.(*ast.FuncDecl); ok && fd.Body != nil {
			fd.Body.List = processList(fd.Body.List)
		}
	}
	if yields > 0 {
		// add the import
		spec := &ast.ImportSpec{Name: ast.NewIdent("vsched"), Path: &ast.BasicLit{Kind: token.STRING, Value: strconv.Quote(shimPath)}}
		added := false
		for _, d := range f.Decls {
			if gd, ok := d.(*ast.GenDecl); ok && gd.Tok == token.IMPORT {
				gd.Specs = append(gd.Specs, spec)
				if !gd.Lparen.IsValid() {
					gd.Lparen = gd.Pos()
					gd.Rparen = gd.End()
				}
				added = true
				break
			}
		}
		if !added {
			gd := &ast.GenDecl{Tok: token.IMPORT, Specs: []ast.Spec{spec}}
			f.Decls = append([]ast.Decl{gd}, f.Decls...)
		}
		f.Imports = append(f.Imports, spec)
	}
	return yields, notModelled
}
