// keygen writes the fixed test keys under fixtures/keys. Run once; the PEM files are committed.
// The keys protect nothing: they only make runs reproducible.
package main

import (
	"crypto/ecdsa"
	"crypto/elliptic"
	"crypto/rand"
	"crypto/rsa"
	"crypto/x509"
	"encoding/pem"
	"os"
)

func main() {
	for _, n := range []string{"K1", "K2", "KA", "KS", "KG", "KX"} {
		k, err := rsa.GenerateKey(rand.Reader, 2048)
		if err != nil {
			panic(err)
		}
		b := pem.EncodeToMemory(&pem.Block{Type: "RSA PRIVATE KEY", Bytes: x509.MarshalPKCS1PrivateKey(k)})
		if err := os.WriteFile("fixtures/keys/"+n+".pem", b, 0644); err != nil {
			panic(err)
		}
	}
	for _, n := range []string{"K3", "KE"} {
		k, err := ecdsa.GenerateKey(elliptic.P256(), rand.Reader)
		if err != nil {
			panic(err)
		}
		der, _ := x509.MarshalECPrivateKey(k)
		b := pem.EncodeToMemory(&pem.Block{Type: "EC PRIVATE KEY", Bytes: der})
		if err := os.WriteFile("fixtures/keys/"+n+".pem", b, 0644); err != nil {
			panic(err)
		}
	}
}
