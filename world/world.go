// Package world fixes the universe every check runs in: keys, certificates minted relative
// to T0, fake clocks and service-provider configurations.
package world

import (
	"crypto"
	"crypto/ecdsa"
	"crypto/rsa"
	"crypto/tls"
	"crypto/x509"
	"crypto/x509/pkix"
	"encoding/json"
	"encoding/pem"
	"fmt"
	"math/big"
	"os"
	"path/filepath"
	"reflect"
	"sync"
	"time"

	saml2 "github.com/russellhaering/gosaml2"
	dsig "github.com/russellhaering/goxmldsig"
)

// T0 is far from wall time on purpose: code that consulted time.Now would reject everything.
var T0 = time.Date(2030, 1, 1, 12, 0, 0, 0, time.UTC)

// KeyDir is where the fixed PEM keys live.
var KeyDir = "/verif/fixtures/keys"

const (
	IDPSSO    = "https://idp.example.com/sso"
	IDPSLO    = "https://idp.example.com/slo"
	IDPIssuer = "https://idp.example.com/metadata"
	ACS       = "https://sp.example.com/saml/acs"
	SPSLO     = "https://sp.example.com/saml/slo"
	SPIssuer  = "https://sp.example.com/metadata"
	Audience  = "https://sp.example.com/audience"
)

var (
	keyMu sync.Mutex
	keys  = map[string]crypto.Signer{}
	certs = map[string]*x509.Certificate{}
)

// Key returns the fixed private key with that name (K1, K2, KA, KS, KG, KX: RSA-2048; KM: RSA-3072; KL: RSA-4096; K3, KE: P-256).
func Key(name string) crypto.Signer {
	keyMu.Lock()
	defer keyMu.Unlock()
	if k, ok := keys[name]; ok {
		return k
	}
	b, err := os.ReadFile(filepath.Join(KeyDir, name+".pem"))
	if err != nil {
		panic(err)
	}
	blk, _ := pem.Decode(b)
	if blk == nil {
		panic("bad pem " + name)
	}
	var k crypto.Signer
	switch blk.Type {
	case "RSA PRIVATE KEY":
		rk, err := x509.ParsePKCS1PrivateKey(blk.Bytes)
		if err != nil {
			panic(err)
		}
		k = rk
	case "EC PRIVATE KEY":
		ek, err := x509.ParseECPrivateKey(blk.Bytes)
		if err != nil {
			panic(err)
		}
		k = ek
	default:
		panic("unknown key type " + blk.Type)
	}
	keys[name] = k
	return k
}

// RSAKey is Key for the RSA keys.
func RSAKey(name string) *rsa.PrivateKey { return Key(name).(*rsa.PrivateKey) }

// CertWindow mints (memoised) a self-signed certificate for the named key valid in [nb, na].
func CertWindow(keyName string, nb, na time.Time) *x509.Certificate {
	id := fmt.Sprintf("%s/%d/%d", keyName, nb.Unix(), na.Unix())
	k := Key(keyName)
	keyMu.Lock()
	defer keyMu.Unlock()
	if c, ok := certs[id]; ok {
		return c
	}
	serial := int64(0)
	for _, ch := range id {
		serial = serial*131 + int64(ch)
		serial &= 0x7fffffffffff
	}
	tmpl := &x509.Certificate{
		SerialNumber: big.NewInt(serial + 1),
		// every IdP-side certificate (trusted, roll-over, and the attacker's) carries the same
		// subject: certificates must be told apart by identity, never by name
		Subject:               pkix.Name{CommonName: subjectOf(keyName), Organization: []string{"verif"}},
		NotBefore:             nb,
		NotAfter:              na,
		KeyUsage:              x509.KeyUsageDigitalSignature | x509.KeyUsageKeyEncipherment,
		BasicConstraintsValid: true,
	}
	var pub interface{}
	switch kk := k.(type) {
	case *rsa.PrivateKey:
		pub = &kk.PublicKey
	case *ecdsa.PrivateKey:
		pub = &kk.PublicKey
	}
	// a constant "random" stream makes the certificate bytes reproducible across processes
	// (RSA PKCS#1 v1.5 is deterministic anyway; ECDSA derives its nonce from key, digest and
	// this stream), so replay files that embed a certificate stay valid.
	der, err := x509.CreateCertificate(constReader{}, tmpl, tmpl, pub, k)
	if err != nil {
		panic(err)
	}
	c, err := x509.ParseCertificate(der)
	if err != nil {
		panic(err)
	}
	certs[id] = c
	return c
}

type constReader struct{}

func (constReader) Read(p []byte) (int, error) {
	for i := range p {
		p[i] = 0x5a
	}
	return len(p), nil
}

func subjectOf(keyName string) string {
	switch keyName {
	case "KS", "KG", "KX", "KL", "KM":
		return "sp.example.com"
	}
	return "idp.example.com"
}

// Window is the default validity window of a key's certificate, as offsets from T0:
// [T0-1h, T0+1h], except K2 whose window is [T0-2h, T0+2h] so that roll-over situations
// (one trusted certificate expired, the other still valid) exist in the world.
func Window(keyName string) (nb, na time.Duration) {
	if keyName == "K2" {
		return -2 * time.Hour, 2 * time.Hour
	}
	return -time.Hour, time.Hour
}

// Cert is the default certificate of a key (see Window).
func Cert(keyName string) *x509.Certificate {
	nb, na := Window(keyName)
	return CertWindow(keyName, T0.Add(nb), T0.Add(na))
}

// Store builds a certificate store from key names (default windows).
func Store(keyNames ...string) *dsig.MemoryX509CertificateStore {
	s := &dsig.MemoryX509CertificateStore{Roots: []*x509.Certificate{}}
	for _, n := range keyNames {
		s.Roots = append(s.Roots, Cert(n))
	}
	return s
}

// CertEndingIn mints (memoised) a certificate for the named key, valid in the key's default
// window, whose DER encoding ends in the given octet (the last octet of the signature): serial
// numbers are tried in turn until one fits.
func CertEndingIn(keyName string, last byte) *x509.Certificate {
	id := fmt.Sprintf("%s/ends-in/%02x", keyName, last)
	k := Key(keyName)
	keyMu.Lock()
	defer keyMu.Unlock()
	if c, ok := certs[id]; ok {
		return c
	}
	nb, na := Window(keyName)
	var pub interface{}
	switch kk := k.(type) {
	case *rsa.PrivateKey:
		pub = &kk.PublicKey
	case *ecdsa.PrivateKey:
		pub = &kk.PublicKey
	}
	for serial := int64(1000); serial < 20000; serial++ {
		tmpl := &x509.Certificate{
			SerialNumber:          big.NewInt(serial),
			Subject:               pkix.Name{CommonName: subjectOf(keyName), Organization: []string{"verif"}},
			NotBefore:             T0.Add(nb),
			NotAfter:              T0.Add(na),
			KeyUsage:              x509.KeyUsageDigitalSignature | x509.KeyUsageKeyEncipherment,
			BasicConstraintsValid: true,
		}
		der, err := x509.CreateCertificate(constReader{}, tmpl, tmpl, pub, k)
		if err != nil {
			panic(err)
		}
		if der[len(der)-1] == last {
			c, err := x509.ParseCertificate(der)
			if err != nil {
				panic(err)
			}
			certs[id] = c
			return c
		}
	}
	panic("no certificate ending in that octet found")
}

// CertSlice is a certificate store that is a plain slice.
type CertSlice []*x509.Certificate

func (c CertSlice) Certificates() ([]*x509.Certificate, error) { return c, nil }

// Clock is a fake clock frozen at t.
func Clock(t time.Time) *dsig.Clock { return dsig.NewFakeClockAt(t) }

// TLSKeyStore is the field-style key store for an RSA key with its default certificate.
func TLSKeyStore(keyName string) dsig.X509KeyStore {
	return dsig.TLSCertKeyStore(tls.Certificate{Certificate: [][]byte{Cert(keyName).Raw}, PrivateKey: RSAKey(keyName)})
}

// PlainKeyStore is a field-style key store of a type of the deployment's own (anything that
// implements dsig.X509KeyStore is allowed in the fields), not dsig.TLSCertKeyStore.
type PlainKeyStore struct {
	Signer *rsa.PrivateKey
	Cert   []byte
	Err    error
}

func (p *PlainKeyStore) GetKeyPair() (*rsa.PrivateKey, []byte, error) { return p.Signer, p.Cert, p.Err }

// FieldKeyStore is TLSKeyStore, or the same key and certificate in a PlainKeyStore.
func FieldKeyStore(keyName string, plain bool) dsig.X509KeyStore {
	if plain {
		return &PlainKeyStore{Signer: RSAKey(keyName), Cert: Cert(keyName).Raw}
	}
	return TLSKeyStore(keyName)
}

// TLSKeyStoreChain is TLSKeyStore with a second certificate (another key's) after the leaf,
// as a deployment that configures a certificate chain would have.
func TLSKeyStoreChain(keyName, extra string) dsig.X509KeyStore {
	return dsig.TLSCertKeyStore(tls.Certificate{Certificate: [][]byte{Cert(keyName).Raw, Cert(extra).Raw}, PrivateKey: RSAKey(keyName)})
}

// SetterKeyStore is the setter-style key store for a key with its default certificate.
func SetterKeyStore(keyName string) *saml2.KeyStore {
	return &saml2.KeyStore{Signer: Key(keyName), Cert: Cert(keyName).Raw}
}

// SP returns a fresh, fully configured service provider: store [C1], clock T0, encryption
// key KS given through the field, all endpoints and issuers set.
func SP() *saml2.SAMLServiceProvider {
	return &saml2.SAMLServiceProvider{
		IdentityProviderSSOURL:      IDPSSO,
		IdentityProviderSLOURL:      IDPSLO,
		IdentityProviderIssuer:      IDPIssuer,
		AssertionConsumerServiceURL: ACS,
		ServiceProviderSLOURL:       SPSLO,
		ServiceProviderIssuer:       SPIssuer,
		AudienceURI:                 Audience,
		IDPCertificateStore:         Store("K1"),
		SPKeyStore:                  TLSKeyStore("KS"),
		Clock:                       Clock(T0),
		NameIdFormat:                saml2.NameIdFormatPersistent,
	}
}

// SPConf is a serialisable description of a service-provider configuration; Build makes a
// fresh instance from it. Replay files carry one.
type SPConf struct {
	Store                  []string `json:"store"`                // key names whose default certificates are trusted
	ClockNs                int64    `json:"clock_ns"`             // SP clock as an offset from T0, in nanoseconds
	SkipSig                bool     `json:"skip_sig,omitempty"`   // SkipSignatureValidation
	NoIssuer               bool     `json:"no_issuer,omitempty"`  // IdentityProviderIssuer left empty
	Audience               *string  `json:"audience,omitempty"`   // AudienceURI override
	EncField               string   `json:"enc_field,omitempty"`  // key name for the SPKeyStore field ("" = KS, "-" = none)
	EncSetter              string   `json:"enc_setter,omitempty"` // key name given through SetSPKeyStore
	SigField               string   `json:"sig_field,omitempty"`  // key name for SPSigningKeyStore
	SigSetter              string   `json:"sig_setter,omitempty"` // key name given through SetSPSigningKeyStore
	ValidateEncCert        bool     `json:"validate_enc_cert,omitempty"`
	MaxSize                int64    `json:"max_size,omitempty"`
	AllowMissingAttributes bool     `json:"allow_missing_attributes,omitempty"`
	NilClock               bool     `json:"nil_clock,omitempty"`
	// EncCertState replaces the certificate bytes of the field key store: "empty", "garbage", "nocert";
	// with PlainStores also "keystore-error" (GetKeyPair fails)
	EncCertState string `json:"enc_cert_state,omitempty"`
	// PlainStores: the field key stores are of a custom type instead of dsig.TLSCertKeyStore
	PlainStores bool `json:"plain_key_stores,omitempty"`
	// NilStore: IDPCertificateStore is left nil (no certificate store at all)
	NilStore bool `json:"nil_store,omitempty"`
	// SliceStore: IDPCertificateStore is a certificate store of the deployment's own type, a
	// named slice (anything with a Certificates method is allowed; a slice is not comparable)
	SliceStore bool `json:"slice_store,omitempty"`
}

// Live mode: while it is on, Build hands out ONE long-lived instance per key configuration
// (which key stores are given, how, and in what state); every other setting of the fresh
// configuration - clock, certificate store, audience URI, issuers, endpoints, options, limits -
// is reassigned on that instance for each call, as an operator or a request handler would.
// It is used by the single-threaded "live instance" passes of the checks: a decision must
// follow the inputs and configuration of the current call, not those of an earlier one.
var live struct {
	on   bool
	m    map[string]*saml2.SAMLServiceProvider
	last []interface{} // results handed out while the current case is judged (see Remember)
	prev []interface{} // ... and while the case before it was judged
}

// LiveBegin switches live mode on (single-threaded use only); LiveEnd switches it off.
func LiveBegin() {
	live.on, live.m, live.last, live.prev = true, map[string]*saml2.SAMLServiceProvider{}, nil, nil
}
func LiveEnd() { live.on, live.m, live.last, live.prev = false, nil, nil, nil }

// LiveOn reports whether live mode is on.
func LiveOn() bool { return live.on }

// Remember notes a result handed out in live mode; TakeRemembered returns and forgets what
// was noted since the last take (the caller writes all over it before the next call).
func Remember(v interface{}) {
	if live.on && v != nil {
		live.last = append(live.last, v)
	}
}

// TakeRemembered returns the results of the case before the previous one (they have lived
// through every call of the previous case) and shifts the generations.
func TakeRemembered() []interface{} {
	l := live.prev
	live.prev, live.last = live.last, nil
	return l
}

// Build returns a fresh service provider for the configuration (or, in live mode, the
// long-lived instance of its key configuration, reconfigured).
func (c SPConf) Build() *saml2.SAMLServiceProvider {
	if live.on {
		k := SPConf{EncField: c.EncField, EncSetter: c.EncSetter, SigField: c.SigField, SigSetter: c.SigSetter, EncCertState: c.EncCertState, PlainStores: c.PlainStores}
		kb, _ := json.Marshal(k)
		sp, ok := live.m[string(kb)]
		if !ok {
			sp = c.build()
			live.m[string(kb)] = sp
			return sp
		}
		f := c.build()
		dst, src := reflect.ValueOf(sp).Elem(), reflect.ValueOf(f).Elem()
		for i := 0; i < dst.NumField(); i++ {
			ft := dst.Type().Field(i)
			if ft.PkgPath != "" || ft.Name == "SPKeyStore" || ft.Name == "SPSigningKeyStore" {
				continue // unexported state and the key stores stay with the instance
			}
			dst.Field(i).Set(src.Field(i))
		}
		return sp
	}
	return c.build()
}

func (c SPConf) build() *saml2.SAMLServiceProvider {
	sp := SP()
	sp.IDPCertificateStore = Store(c.Store...)
	if c.SliceStore {
		sp.IDPCertificateStore = CertSlice(Store(c.Store...).Roots)
	}
	if c.NilStore {
		sp.IDPCertificateStore = nil
	}
	sp.Clock = Clock(T0.Add(time.Duration(c.ClockNs)))
	if c.NilClock {
		sp.Clock = nil
	}
	sp.SkipSignatureValidation = c.SkipSig
	if c.NoIssuer {
		sp.IdentityProviderIssuer = ""
	}
	if c.Audience != nil {
		sp.AudienceURI = *c.Audience
	}
	switch c.EncField {
	case "":
	case "-":
		sp.SPKeyStore = nil
	default:
		sp.SPKeyStore = FieldKeyStore(c.EncField, c.PlainStores)
	}
	if c.EncField == "" && c.PlainStores {
		sp.SPKeyStore = FieldKeyStore("KS", true)
	}
	if c.EncCertState != "" && c.EncField != "-" {
		k := c.EncField
		if k == "" {
			k = "KS"
		}
		var chain [][]byte
		switch c.EncCertState {
		case "empty":
			chain = [][]byte{{}}
		case "garbage":
			chain = [][]byte{[]byte("this is not a DER certificate")}
		case "nocert":
			chain = nil
		}
		sp.SPKeyStore = dsig.TLSCertKeyStore(tls.Certificate{Certificate: chain, PrivateKey: RSAKey(k)})
		if c.PlainStores {
			ps := &PlainKeyStore{Signer: RSAKey(k)}
			if len(chain) > 0 {
				ps.Cert = chain[0]
			}
			if c.EncCertState == "keystore-error" {
				ps = &PlainKeyStore{Err: fmt.Errorf("key store unavailable")}
			}
			sp.SPKeyStore = ps
		}
	}
	if c.EncSetter != "" {
		ks := SetterKeyStore(c.EncSetter)
		if c.EncField == "-" {
			// the setter is the only key: a certificate state applies to it
			switch c.EncCertState {
			case "empty":
				ks.Cert = []byte{}
			case "garbage":
				ks.Cert = []byte("this is not a DER certificate")
			}
		}
		if err := sp.SetSPKeyStore(ks); err != nil {
			panic(err)
		}
	}
	if c.SigField != "" {
		sp.SPSigningKeyStore = FieldKeyStore(c.SigField, c.PlainStores)
	}
	if c.SigSetter != "" {
		if err := sp.SetSPSigningKeyStore(SetterKeyStore(c.SigSetter)); err != nil {
			panic(err)
		}
	}
	sp.ValidateEncryptionCert = c.ValidateEncCert
	sp.MaximumDecompressedBodySize = c.MaxSize
	sp.AllowMissingAttributes = c.AllowMissingAttributes
	return sp
}
