#!/bin/bash
# selftest.sh [Cxx ...]  For every mutants/<Cxx>/*.patch: apply it to /repo, check that the
# repository's pinned tests still pass, require the property's quick check to report a
# VIOLATION, and revert. /repo must be clean when this starts; it is left clean.
cd "$(dirname "$0")" || exit 2
export GOFLAGS=-mod=mod GOPROXY=off GOSUMDB=off GOTOOLCHAIN=local
if [ -n "$(git -C /repo status --porcelain)" ]; then echo "/repo not clean"; exit 2; fi
props="$@"; [ -z "$props" ] && props=$(ls mutants)
rc=0
for p in $props; do
  for m in mutants/$p/*.patch; do
    [ -f "$m" ] || continue
    if ! git -C /repo apply "$PWD/$m"; then echo "SELFTEST $p $(basename $m): PATCH-DOES-NOT-APPLY"; rc=1; continue; fi
    if (cd /repo && go build ./... 2>/dev/null) && python3 tools/baseline.py /repo >/tmp/selftest.base 2>&1; then base=pass; else base=FAIL; fi
    out=$(VERIF_ROOT=/tmp/selftest.verif ./run.sh $p quick 2>&1); code=$?
    git -C /repo checkout -- . ; git -C /repo clean -fdq
    if [ $code -eq 1 ] && echo "$out" | grep -q "^VIOLATION property=$p "; then res=CAUGHT; else res="MISSED(exit=$code)"; rc=1; fi
    echo "SELFTEST $p $(basename $m): baseline=$base check=$res $(echo "$out" | grep -m1 '  key=' )"
  done
done
rm -rf /tmp/selftest.verif /tmp/selftest.base
exit $rc
