#!/bin/bash
# selftest.sh [Cxx ...]  For every mutants/<Cxx>/*.patch: apply it to a scratch worktree of /repo's
# HEAD (never to /repo itself), check that the repository's pinned tests still pass there, require
# the property's quick check (run against that copy through VERIF_REPO) to report a VIOLATION.
cd "$(dirname "$0")" || exit 2
export GOFLAGS=-mod=mod GOPROXY=off GOSUMDB=off GOTOOLCHAIN=local
mkdir -p /tmp/scratch
WT=/tmp/scratch/selftest-wt-$$
OUT=/tmp/scratch/selftest-out-$$
git -C /repo worktree add -q --detach $WT HEAD || exit 2
trap 'git -C /repo worktree remove --force $WT 2>/dev/null; rm -rf $OUT' EXIT
props="$@"; [ -z "$props" ] && props=$(ls mutants | grep -v equivalent)
rc=0
for p in $props; do
  for m in mutants/$p/*.patch; do
    [ -f "$m" ] || continue
    if ! git -C $WT apply "$PWD/$m"; then echo "SELFTEST $p $(basename $m): PATCH-DOES-NOT-APPLY"; rc=1; continue; fi
    if (cd $WT && go build ./... 2>/dev/null) && python3 tools/baseline.py $WT >/dev/null 2>&1; then base=pass; else base=FAIL; fi
    out=$(VERIF_REPO=$WT VERIF_ROOT=$OUT ./run.sh $p quick 2>&1); code=$?
    git -C $WT checkout -q -- . ; git -C $WT clean -fdq
    if [ $code -eq 1 ] && echo "$out" | grep -q "^VIOLATION property=$p "; then res=CAUGHT; else res="MISSED(exit=$code)"; rc=1; fi
    echo "SELFTEST $p $(basename $m): baseline=$base check=$res $(echo "$out" | grep -m1 '  key=' | cut -c1-200)"
  done
done
exit $rc
