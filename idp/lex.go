package idp

import (
	"bytes"
	"fmt"
	"strings"

	"github.com/beevik/etree"
)

// Lexical layout transforms: they change the bytes of a serialised document but not the
// infoset a conforming parser delivers (and therefore not what any XML signature covers).
// They operate on the output of etree's canonical-mode writer, whose shape is predictable:
// attributes double-quoted, text escaped with &amp; &lt; &gt; &#xD;, attribute values with
// &amp; &lt; &quot; &#x9; &#xA; &#xD;.
//
// CheckLex verifies, for one document, that a transform preserved the parse.

// ApplyLex applies one named transform.
func ApplyLex(name string, b []byte) []byte {
	f, ok := lexers[name]
	if !ok {
		panic("unknown lex transform " + name)
	}
	return f(b)
}

// LexNames lists the transforms in a fixed order.
var LexNames = []string{"xml-decl", "comment-before-root", "pi-before-root", "comment-after-root",
	"single-quotes", "attr-order", "tag-whitespace", "expand-empty", "charref-text", "cdata-text", "charref-attr", "bom"}

var lexers = map[string]func([]byte) []byte{
	"xml-decl":            func(b []byte) []byte { return append([]byte("<?xml version=\"1.0\" encoding=\"UTF-8\"?>\n"), b...) },
	"comment-before-root": func(b []byte) []byte { return append([]byte("<!-- issued by the test IdP -->\n"), b...) },
	"pi-before-root":      func(b []byte) []byte { return append([]byte("<?idp trace=\"1\"?>"), b...) },
	"comment-after-root":  func(b []byte) []byte { return append(append([]byte{}, b...), []byte("\n<!-- end -->\n")...) },
	"single-quotes":       func(b []byte) []byte { return mapTags(b, tagSingleQuotes) },
	"attr-order":          func(b []byte) []byte { return mapTags(b, tagReverseAttrs) },
	"tag-whitespace":      func(b []byte) []byte { return mapTags(b, tagWhitespace) },
	"expand-empty":        func(b []byte) []byte { return mapTags(b, tagExpandEmpty) },
	"charref-text":        func(b []byte) []byte { return mapText(b, textCharRef) },
	"cdata-text":          func(b []byte) []byte { return mapText(b, textCDATA) },
	"charref-attr":        func(b []byte) []byte { return mapTags(b, tagCharRefAttr) },
	// a UTF-8 byte order mark before everything else (XML 1.0, 4.3.3)
	"bom": func(b []byte) []byte { return append([]byte("\xef\xbb\xbf"), b...) },
}

// segment kinds of a serialised document
type seg struct {
	kind int // 0 text, 1 start/empty tag, 2 end tag, 3 other markup (comment, PI, CDATA, directive)
	s    string
}

func segments(b []byte) []seg {
	var out []seg
	s := string(b)
	i := 0
	for i < len(s) {
		if s[i] != '<' {
			j := strings.IndexByte(s[i:], '<')
			if j < 0 {
				j = len(s) - i
			}
			out = append(out, seg{0, s[i : i+j]})
			i += j
			continue
		}
		switch {
		case strings.HasPrefix(s[i:], "<!--"):
			j := strings.Index(s[i:], "-->") + 3
			out = append(out, seg{3, s[i : i+j]})
			i += j
		case strings.HasPrefix(s[i:], "<![CDATA["):
			j := strings.Index(s[i:], "]]>") + 3
			out = append(out, seg{3, s[i : i+j]})
			i += j
		case strings.HasPrefix(s[i:], "<?"):
			j := strings.Index(s[i:], "?>") + 2
			out = append(out, seg{3, s[i : i+j]})
			i += j
		case strings.HasPrefix(s[i:], "<!"):
			j := strings.IndexByte(s[i:], '>') + 1
			out = append(out, seg{3, s[i : i+j]})
			i += j
		case strings.HasPrefix(s[i:], "</"):
			j := strings.IndexByte(s[i:], '>') + 1
			out = append(out, seg{2, s[i : i+j]})
			i += j
		default:
			// start tag: find the closing '>' outside quotes
			j := i + 1
			var q byte
			for j < len(s) {
				c := s[j]
				if q != 0 {
					if c == q {
						q = 0
					}
				} else if c == '"' || c == '\'' {
					q = c
				} else if c == '>' {
					break
				}
				j++
			}
			out = append(out, seg{1, s[i : j+1]})
			i = j + 1
		}
	}
	return out
}

func join(segs []seg) []byte {
	var sb bytes.Buffer
	for _, x := range segs {
		sb.WriteString(x.s)
	}
	return sb.Bytes()
}

type attrTok struct{ name, val string } // val includes its quotes

// splitTag parses "<name a="v" b='w'/>" into name, attributes, and whether it is empty.
func splitTag(t string) (name string, attrs []attrTok, empty bool) {
	body := t[1 : len(t)-1]
	if strings.HasSuffix(body, "/") {
		empty = true
		body = body[:len(body)-1]
	}
	i := 0
	for i < len(body) && !isSpace(body[i]) {
		i++
	}
	name = body[:i]
	for i < len(body) {
		for i < len(body) && isSpace(body[i]) {
			i++
		}
		if i >= len(body) {
			break
		}
		j := i
		for j < len(body) && body[j] != '=' && !isSpace(body[j]) {
			j++
		}
		an := body[i:j]
		for j < len(body) && (isSpace(body[j]) || body[j] == '=') {
			j++
		}
		q := body[j]
		k := j + 1
		for k < len(body) && body[k] != q {
			k++
		}
		attrs = append(attrs, attrTok{an, body[j : k+1]})
		i = k + 1
	}
	return
}

func isSpace(c byte) bool { return c == ' ' || c == '\t' || c == '\n' || c == '\r' }

func buildTag(name string, attrs []attrTok, empty bool, sep, tail string) string {
	var sb strings.Builder
	sb.WriteString("<" + name)
	for _, a := range attrs {
		sb.WriteString(sep + a.name + "=" + a.val)
	}
	sb.WriteString(tail)
	if empty {
		sb.WriteString("/>")
	} else {
		sb.WriteString(">")
	}
	return sb.String()
}

func mapTags(b []byte, f func(name string, attrs []attrTok, empty bool) string) []byte {
	segs := segments(b)
	for i, x := range segs {
		if x.kind == 1 {
			n, a, e := splitTag(x.s)
			segs[i].s = f(n, a, e)
		}
	}
	return join(segs)
}

func tagSingleQuotes(name string, attrs []attrTok, empty bool) string {
	for i, a := range attrs {
		if a.val[0] == '"' && !strings.Contains(a.val, "'") && !strings.Contains(a.val, "&quot;") {
			attrs[i].val = "'" + a.val[1:len(a.val)-1] + "'"
		}
	}
	return buildTag(name, attrs, empty, " ", "")
}

func tagReverseAttrs(name string, attrs []attrTok, empty bool) string {
	for i, j := 0, len(attrs)-1; i < j; i, j = i+1, j-1 {
		attrs[i], attrs[j] = attrs[j], attrs[i]
	}
	return buildTag(name, attrs, empty, " ", "")
}

func tagWhitespace(name string, attrs []attrTok, empty bool) string {
	return buildTag(name, attrs, empty, "\n    ", " ")
}

func tagExpandEmpty(name string, attrs []attrTok, empty bool) string {
	if !empty {
		return buildTag(name, attrs, false, " ", "")
	}
	return buildTag(name, attrs, false, " ", "") + "</" + name + ">"
}

// tagCharRefAttr writes every 'e' inside attribute values as a character reference.
func tagCharRefAttr(name string, attrs []attrTok, empty bool) string {
	for i, a := range attrs {
		if strings.HasPrefix(a.name, "xmlns") {
			continue // keep namespace declarations literal (legal either way, but dull)
		}
		attrs[i].val = a.val[:1] + refE(a.val[1:len(a.val)-1]) + a.val[len(a.val)-1:]
	}
	return buildTag(name, attrs, empty, " ", "")
}

// refE replaces 'e' by &#x65; outside existing references.
func refE(s string) string {
	var sb strings.Builder
	inRef := false
	for i := 0; i < len(s); i++ {
		c := s[i]
		switch {
		case c == '&':
			inRef = true
			sb.WriteByte(c)
		case c == ';' && inRef:
			inRef = false
			sb.WriteByte(c)
		case c == 'e' && !inRef:
			sb.WriteString("&#x65;")
		default:
			sb.WriteByte(c)
		}
	}
	return sb.String()
}

// mapText applies f to every text segment that lies inside the root element.
func mapText(b []byte, f func(string) string) []byte {
	segs := segments(b)
	depth := 0
	for i, x := range segs {
		switch x.kind {
		case 1:
			if !strings.HasSuffix(x.s, "/>") {
				depth++
			}
		case 2:
			depth--
		case 0:
			if depth > 0 {
				segs[i].s = f(x.s)
			}
		}
	}
	return join(segs)
}

func textCharRef(s string) string { return refE(s) }

// textCDATA turns a text run into a CDATA section when that cannot change its value:
// no "]]>" and no carriage return (a literal CR would be normalised to LF).
func textCDATA(s string) string {
	if strings.TrimSpace(s) == "" {
		return s
	}
	raw, ok := unescapeText(s)
	if !ok || strings.Contains(raw, "]]>") || strings.ContainsAny(raw, "\r") {
		return s
	}
	return "<![CDATA[" + raw + "]]>"
}

func unescapeText(s string) (string, bool) {
	var sb strings.Builder
	for i := 0; i < len(s); i++ {
		if s[i] != '&' {
			sb.WriteByte(s[i])
			continue
		}
		j := strings.IndexByte(s[i:], ';')
		if j < 0 {
			return "", false
		}
		switch s[i : i+j+1] {
		case "&amp;":
			sb.WriteByte('&')
		case "&lt;":
			sb.WriteByte('<')
		case "&gt;":
			sb.WriteByte('>')
		case "&quot;":
			sb.WriteByte('"')
		case "&apos;":
			sb.WriteByte('\'')
		case "&#xD;":
			sb.WriteByte('\r')
		case "&#xA;":
			sb.WriteByte('\n')
		case "&#x9;":
			sb.WriteByte('\t')
		default:
			return "", false
		}
		i += j
	}
	return sb.String(), true
}

// CheckLex reports an error if transformed does not parse to the same document as original
// (compared through etree's canonical-mode writer; comments and processing instructions
// outside the root are ignored).
func CheckLex(original, transformed []byte) error {
	norm := func(b []byte) (string, error) {
		d := etree.NewDocument()
		if err := d.ReadFromBytes(b); err != nil {
			return "", err
		}
		r := d.Root()
		if r == nil {
			return "", fmt.Errorf("no root")
		}
		nd := etree.NewDocument()
		nd.WriteSettings = etree.WriteSettings{CanonicalText: true, CanonicalAttrVal: true, CanonicalEndTags: true}
		nd.SetRoot(sortAttrs(r.Copy()))
		s, err := nd.WriteToString()
		return s, err
	}
	a, err := norm(original)
	if err != nil {
		return fmt.Errorf("original: %v", err)
	}
	b, err := norm(transformed)
	if err != nil {
		return fmt.Errorf("transformed: %v", err)
	}
	if a != b {
		return fmt.Errorf("lexical transform changed the parsed document")
	}
	return nil
}

func sortAttrs(el *etree.Element) *etree.Element {
	el.SortAttrs()
	// merge adjacent character data (CDATA sections arrive as separate tokens)
	var merged []etree.Token
	for _, c := range el.Child {
		if cd, ok := c.(*etree.CharData); ok && len(merged) > 0 {
			if prev, ok := merged[len(merged)-1].(*etree.CharData); ok {
				merged[len(merged)-1] = etree.NewText(prev.Data + cd.Data)
				continue
			}
			merged = append(merged, etree.NewText(cd.Data))
			continue
		} else if ok {
			merged = append(merged, etree.NewText(cd.Data))
			continue
		}
		merged = append(merged, c)
	}
	for len(el.Child) > 0 {
		el.RemoveChildAt(0)
	}
	for _, c := range merged {
		el.AddChild(c)
	}
	for _, c := range el.ChildElements() {
		sortAttrs(c)
	}
	return el
}
