package idp

// ApplyLex applies one named byte-level transform. Implemented in lexers.go as they are added.
func ApplyLex(name string, b []byte) []byte {
	f, ok := lexers[name]
	if !ok {
		panic("unknown lex transform " + name)
	}
	return f(b)
}

var lexers = map[string]func([]byte) []byte{}
