package idp

import (
	"strings"
	"bytes"
	"compress/flate"
	"encoding/base64"

	"github.com/beevik/etree"
)

// canonical write settings: the only mode in which the harness ever serialises a tree.
var canonWS = etree.WriteSettings{CanonicalText: true, CanonicalAttrVal: true, CanonicalEndTags: false}

type builder struct{ style int }

func (b builder) prefixes() (p, a string) {
	switch b.style {
	case 1:
		return "saml2p", "saml2"
	case 2:
		return "", ""
	default:
		return "samlp", "saml"
	}
}

// inScope reports the namespace bound to prefix at el (walking up).
func inScope(el *etree.Element, prefix string) string {
	for e := el; e != nil; e = e.Parent() {
		for _, at := range e.Attr {
			if prefix == "" && at.Space == "" && at.Key == "xmlns" {
				return at.Value
			}
			if prefix != "" && at.Space == "xmlns" && at.Key == prefix {
				return at.Value
			}
		}
	}
	return ""
}

// mk creates a child of parent (or a root when parent is nil) named tag in namespace ns,
// declaring the namespace locally whenever the prefix is not already bound to it.
func (b builder) mk(parent *etree.Element, ns, tag string) *etree.Element {
	p, a := b.prefixes()
	prefix := p
	if ns == NSA {
		prefix = a
	}
	el := &etree.Element{Space: prefix, Tag: tag}
	if parent != nil {
		parent.AddChild(el)
	}
	if inScope(el, prefix) != ns {
		if prefix == "" {
			el.CreateAttr("xmlns", ns)
		} else {
			el.CreateAttr("xmlns:"+prefix, ns)
		}
	}
	return el
}

// root creates the root element; for styles 0 and 1 both SAML prefixes are declared on it.
func (b builder) root(ns, tag string) *etree.Element {
	p, a := b.prefixes()
	el := b.mk(nil, ns, tag)
	if b.style == 0 || b.style == 1 {
		if inScope(el, p) == "" {
			el.CreateAttr("xmlns:"+p, NSP)
		}
		if inScope(el, a) == "" {
			el.CreateAttr("xmlns:"+a, NSA)
		}
	}
	return el
}

func setAttr(el *etree.Element, k, v string) {
	if v != Absent {
		el.CreateAttr(k, v)
	}
}

func (b builder) status(parent *etree.Element, status string) {
	switch status {
	case "nostatus":
	case "nocode":
		b.mk(parent, NSP, "Status")
	default:
		v := status
		if status == "ok" {
			v = StatusSuccess
		}
		st := b.mk(parent, NSP, "Status")
		// "outer>inner": a second-level status code nested in the top-level one
		if i := strings.Index(v, ">"); i >= 0 {
			outer := b.mk(st, NSP, "StatusCode")
			outer.CreateAttr("Value", v[:i])
			b.mk(outer, NSP, "StatusCode").CreateAttr("Value", v[i+1:])
			return
		}
		b.mk(st, NSP, "StatusCode").CreateAttr("Value", v)
	}
}

// BuildAssertion appends the assertion to parent (may be nil for a bare assertion).
func (b builder) assertion(parent *etree.Element, s AssertionSpec) *etree.Element {
	var as *etree.Element
	if parent == nil {
		as = b.root(NSA, "Assertion")
	} else {
		as = b.mk(parent, NSA, "Assertion")
	}
	setAttr(as, "ID", s.ID)
	setAttr(as, "Version", s.Version)
	setAttr(as, "IssueInstant", s.IssueInstant)
	if s.Issuer != Absent {
		b.mk(as, NSA, "Issuer").SetText(s.Issuer)
	}
	if !s.NoSubject {
		sub := b.mk(as, NSA, "Subject")
		if s.NameID != Absent {
			n := b.mk(sub, NSA, "NameID")
			n.CreateAttr("Format", Persistent)
			n.SetText(s.NameID)
		}
		if !s.NoSubjConf {
			sc := b.mk(sub, NSA, "SubjectConfirmation")
			setAttr(sc, "Method", s.Method)
			if !s.NoSCD {
				scd := b.mk(sc, NSA, "SubjectConfirmationData")
				setAttr(scd, "InResponseTo", s.SCDInResponseTo)
				setAttr(scd, "NotOnOrAfter", s.SCDNotOnOrAfter)
				setAttr(scd, "Recipient", s.Recipient)
			}
		}
	}
	if !s.NoConditions {
		c := b.mk(as, NSA, "Conditions")
		setAttr(c, "NotBefore", s.NotBefore)
		setAttr(c, "NotOnOrAfter", s.NotOnOrAfter)
		for _, ar := range s.Audiences {
			r := b.mk(c, NSA, "AudienceRestriction")
			for _, a := range ar {
				b.mk(r, NSA, "Audience").SetText(a)
			}
		}
		if s.OneTimeUse {
			b.mk(c, NSA, "OneTimeUse")
		}
		if s.Proxy != nil {
			pr := b.mk(c, NSA, "ProxyRestriction")
			setAttr(pr, "Count", s.Proxy.Count)
			for _, a := range s.Proxy.Audiences {
				b.mk(pr, NSA, "Audience").SetText(a)
			}
		}
	}
	if !s.NoAuthn {
		au := b.mk(as, NSA, "AuthnStatement")
		setAttr(au, "AuthnInstant", s.AuthnInstant)
		setAttr(au, "SessionIndex", s.SessionIndex)
		setAttr(au, "SessionNotOnOrAfter", s.SessionNotOnOrAfter)
		if s.ClassRef != Absent {
			ac := b.mk(au, NSA, "AuthnContext")
			b.mk(ac, NSA, "AuthnContextClassRef").SetText(s.ClassRef)
		}
	}
	for _, st := range s.AttrStatements {
		ast := b.mk(as, NSA, "AttributeStatement")
		for _, at := range st {
			a := b.mk(ast, NSA, "Attribute")
			setAttr(a, "Name", at.Name)
			if at.FriendlyName != "" {
				setAttr(a, "FriendlyName", at.FriendlyName)
			}
			if at.NameFormat != "" {
				setAttr(a, "NameFormat", at.NameFormat)
			}
			for _, v := range at.Values {
				av := b.mk(a, NSA, "AttributeValue")
				if at.Typed {
					av.CreateAttr("xmlns:xs", "http://www.w3.org/2001/XMLSchema")
					av.CreateAttr("xmlns:xsi", "http://www.w3.org/2001/XMLSchema-instance")
					av.CreateAttr("xsi:type", "xs:string")
				}
				av.SetText(v)
			}
		}
	}
	return as
}

// BuildResponse renders the spec to a document: assertions are signed first (in place, as
// detached in their namespace context), then encrypted if asked, then the Response is signed.
func BuildResponse(s ResponseSpec) *etree.Document {
	b := builder{style: s.Layout.Prefix}
	root := b.root(NSP, "Response")
	setAttr(root, "ID", s.ID)
	setAttr(root, "Version", s.Version)
	setAttr(root, "IssueInstant", s.IssueInstant)
	setAttr(root, "Destination", s.Destination)
	setAttr(root, "InResponseTo", s.InResponseTo)
	if s.Issuer != Absent {
		b.mk(root, NSA, "Issuer").SetText(s.Issuer)
	}
	b.status(root, s.Status)
	var asEls []*etree.Element
	for _, a := range s.Assertions {
		asEls = append(asEls, b.assertion(root, a))
	}
	doc := etree.NewDocument()
	doc.WriteSettings = canonWS
	doc.SetRoot(root)
	if s.Layout.Pretty {
		doc.Indent(2)
	}
	for i, a := range s.Assertions {
		if a.Sign.Signed() {
			SignInPlace(asEls[i], a.Sign)
		}
		if a.Encrypt != nil {
			EncryptInPlace(asEls[i], *a.Encrypt)
		}
	}
	if s.Sign.Signed() {
		SignInPlace(root, s.Sign)
	}
	return doc
}

// BuildBareAssertion renders one assertion as a document root.
func BuildBareAssertion(s AssertionSpec, style int) *etree.Document {
	b := builder{style: style}
	as := b.assertion(nil, s)
	doc := etree.NewDocument()
	doc.WriteSettings = canonWS
	doc.SetRoot(as)
	if s.Sign.Signed() {
		SignInPlace(as, s.Sign)
	}
	return doc
}

// BuildLogout renders a LogoutRequest / LogoutResponse.
func BuildLogout(s LogoutSpec) *etree.Document {
	b := builder{style: s.Layout.Prefix}
	root := b.root(NSP, s.Kind)
	setAttr(root, "ID", s.ID)
	setAttr(root, "Version", s.Version)
	setAttr(root, "IssueInstant", s.IssueInstant)
	setAttr(root, "Destination", s.Destination)
	setAttr(root, "InResponseTo", s.InResponseTo)
	if s.Issuer != Absent {
		b.mk(root, NSA, "Issuer").SetText(s.Issuer)
	}
	if s.Kind == "LogoutResponse" {
		b.status(root, s.Status)
	} else {
		if s.NameID != Absent {
			n := b.mk(root, NSA, "NameID")
			n.CreateAttr("Format", Persistent)
			n.SetText(s.NameID)
		}
		if s.SessionIndex != Absent {
			b.mk(root, NSP, "SessionIndex").SetText(s.SessionIndex)
		}
	}
	doc := etree.NewDocument()
	doc.WriteSettings = canonWS
	doc.SetRoot(root)
	if s.Layout.Pretty {
		doc.Indent(2)
	}
	if s.Sign.Signed() {
		SignInPlace(root, s.Sign)
	}
	return doc
}

// Bytes serialises in canonical mode and applies the layout's lexical transforms.
func Bytes(doc *etree.Document, l Layout) []byte {
	doc.WriteSettings = canonWS
	b, err := doc.WriteToBytes()
	if err != nil {
		panic(err)
	}
	for _, t := range l.Lex {
		b = ApplyLex(t, b)
	}
	return b
}

// Encode is the wire form: optional raw DEFLATE, then base64.
func Encode(xml []byte, deflate bool) string {
	if deflate {
		xml = Deflate(xml, flate.DefaultCompression)
	}
	return base64.StdEncoding.EncodeToString(xml)
}

func Deflate(b []byte, level int) []byte {
	var buf bytes.Buffer
	w, err := flate.NewWriter(&buf, level)
	if err != nil {
		panic(err)
	}
	w.Write(b)
	w.Close()
	return buf.Bytes()
}

// RenderResponse is BuildResponse + Bytes + Encode.
func RenderResponse(s ResponseSpec) string {
	return Encode(Bytes(BuildResponse(s), s.Layout), s.Layout.Deflate)
}

func RenderLogout(s LogoutSpec) string {
	return Encode(Bytes(BuildLogout(s), s.Layout), s.Layout.Deflate)
}

// InjectComments places XML comments inside signed content of an assertion (before signing):
// mode 1 inside the NameID text, 2 inside the first AttributeValue text, 3 between child
// elements, 4 all of these.
func InjectComments(as *etree.Element, mode int) {
	split := func(el *etree.Element) {
		if el == nil {
			return
		}
		txt := el.Text()
		for len(el.Child) > 0 {
			el.RemoveChildAt(0)
		}
		h := len(txt) / 2
		for h > 0 && h < len(txt) && txt[h]&0xC0 == 0x80 {
			h-- // do not split inside a UTF-8 sequence
		}
		if h > 0 {
			el.AddChild(etree.NewText(txt[:h]))
		}
		el.AddChild(etree.NewComment(" a comment "))
		if h < len(txt) {
			el.AddChild(etree.NewText(txt[h:]))
		}
	}
	if mode == 1 || mode == 4 {
		split(as.FindElement("./Subject/NameID"))
	}
	if mode == 2 || mode == 4 {
		split(as.FindElement("./AttributeStatement/Attribute/AttributeValue"))
	}
	if mode == 3 || mode == 4 {
		as.InsertChildAt(1, etree.NewComment(" between elements "))
		if s := as.FindElement("./Subject"); s != nil {
			s.InsertChildAt(0, etree.NewComment(" first in Subject "))
		}
	}
}
