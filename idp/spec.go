// Package idp is the harness's identity provider: abstract message specifications are
// rendered to bytes (etree as DOM, canonical-mode writer only), signed with an XML-DSig
// signer written here on top of goxmldsig's canonicalisers, optionally encrypted, and
// optionally re-lexed into byte-different but infoset-identical layouts.
//
// Oracles read the Spec, never the bytes.
package idp

import (
	"time"

	"verif/world"
)

// Absent marks an attribute or element that is left out.
const Absent = "\x00absent"

const (
	NSP  = "urn:oasis:names:tc:SAML:2.0:protocol"
	NSA  = "urn:oasis:names:tc:SAML:2.0:assertion"
	NSDS = "http://www.w3.org/2000/09/xmldsig#"
	NSXE = "http://www.w3.org/2001/04/xmlenc#"

	StatusSuccess = "urn:oasis:names:tc:SAML:2.0:status:Success"
	Bearer        = "urn:oasis:names:tc:SAML:2.0:cm:bearer"
	PPT           = "urn:oasis:names:tc:SAML:2.0:ac:classes:PasswordProtectedTransport"
	Persistent    = "urn:oasis:names:tc:SAML:2.0:nameid-format:persistent"
)

// TS renders an instant the way IdPs usually do.
func TS(t time.Time) string { return t.UTC().Format("2006-01-02T15:04:05Z") }

// SignSpec says how (and whether) one element is signed.
type SignSpec struct {
	Key        string `json:"key,omitempty"`        // key name; "" = not signed
	KeyInfo    string `json:"keyinfo,omitempty"`    // "" own certificate; "cert:<key>"; "none"; "empty"; "garbage"
	SigAlg     string `json:"sigalg,omitempty"`     // URI; "" = rsa-sha256 / ecdsa-sha256 by key type
	Digest     string `json:"digest,omitempty"`     // URI; "" = sha256
	C14N       string `json:"c14n,omitempty"`       // URI; "" = exclusive c14n
	PrefixList string `json:"prefixlist,omitempty"` // InclusiveNamespaces PrefixList (exclusive c14n only)
	RefURI     string `json:"refuri,omitempty"`     // "" = "#"+ID; Absent = URI=""
	Tamper     string `json:"tamper,omitempty"`     // after signing: "content", "sigvalue", "digest"
	// Nested, when set, places the Signature inside a wrapper child of the signed element
	// ("Extensions") instead of directly under it; the enveloped transform removes only the
	// Signature, so the (then empty) wrapper is part of the signed content.
	Nested string `json:"nested,omitempty"`
	// Wrap64 breaks the base64 text of DigestValue, SignatureValue and X509Certificate into
	// 64-character lines, as most IdP implementations do.
	Wrap64 bool `json:"wrap64,omitempty"`
	// Indent (with Wrap64) also indents every line of those base64 texts with spaces, as a
	// pretty-printing serialiser does. Go's base64 decoder skips line ends but not spaces.
	Indent bool `json:"indent,omitempty"`
}

func (s SignSpec) Signed() bool { return s.Key != "" }

type AttrSpec struct {
	Name         string   `json:"name"`
	FriendlyName string   `json:"friendly,omitempty"`
	NameFormat   string   `json:"format,omitempty"`
	Values       []string `json:"values"`
	// Typed: every AttributeValue declares xmlns:xs and xmlns:xsi itself and carries
	// xsi:type="xs:string" (what many IdP products write)
	Typed bool `json:"typed,omitempty"`
}

type ProxySpec struct {
	Count     string   `json:"count"` // Absent or decimal
	Audiences []string `json:"audiences"`
}

// AssertionSpec is one assertion. Zero value is not useful; start from DefaultAssertion.
type AssertionSpec struct {
	ID           string `json:"id"`
	Version      string `json:"version"`
	IssueInstant string `json:"issue_instant"`
	Issuer       string `json:"issuer"`

	NoSubject       bool   `json:"no_subject,omitempty"`
	NameID          string `json:"nameid"`
	NoSubjConf      bool   `json:"no_subjconf,omitempty"`
	Method          string `json:"method"`
	NoSCD           bool   `json:"no_scd,omitempty"`
	Recipient       string `json:"recipient"`
	SCDNotOnOrAfter string `json:"scd_notonorafter"`
	SCDInResponseTo string `json:"scd_inresponseto"`

	NoConditions bool       `json:"no_conditions,omitempty"`
	NotBefore    string     `json:"notbefore"`
	NotOnOrAfter string     `json:"notonorafter"`
	Audiences    [][]string `json:"audiences"` // one inner list per AudienceRestriction
	OneTimeUse   bool       `json:"onetimeuse,omitempty"`
	Proxy        *ProxySpec `json:"proxy,omitempty"`

	AttrStatements [][]AttrSpec `json:"attr_statements"`

	NoAuthn             bool   `json:"no_authn,omitempty"`
	SessionIndex        string `json:"session_index"`
	AuthnInstant        string `json:"authn_instant"`
	SessionNotOnOrAfter string `json:"session_notonorafter"`
	ClassRef            string `json:"classref"`

	Sign SignSpec `json:"sign,omitempty"`
	// Encrypt, when set, wraps the (possibly signed) assertion in an EncryptedAssertion.
	Encrypt *EncSpec `json:"encrypt,omitempty"`
}

// ResponseSpec is an SSO Response.
type ResponseSpec struct {
	ID           string `json:"id"`
	InResponseTo string `json:"inresponseto"`
	Destination  string `json:"destination"`
	Version      string `json:"version"`
	IssueInstant string `json:"issue_instant"`
	Issuer       string `json:"issuer"`
	// Status: "ok", "nostatus", "nocode", or any other string used as the StatusCode value.
	Status     string          `json:"status"`
	Assertions []AssertionSpec `json:"assertions"`
	Sign       SignSpec        `json:"sign,omitempty"`
	Layout     Layout          `json:"layout,omitempty"`
}

// LogoutSpec is a LogoutRequest (Kind "LogoutRequest") or LogoutResponse.
type LogoutSpec struct {
	Kind         string   `json:"kind"`
	ID           string   `json:"id"`
	InResponseTo string   `json:"inresponseto"`
	Destination  string   `json:"destination"`
	Version      string   `json:"version"`
	IssueInstant string   `json:"issue_instant"`
	Issuer       string   `json:"issuer"`
	Status       string   `json:"status"` // LogoutResponse only
	NameID       string   `json:"nameid"` // LogoutRequest only
	SessionIndex string   `json:"session_index"`
	Sign         SignSpec `json:"sign,omitempty"`
	Layout       Layout   `json:"layout,omitempty"`
}

// Layout selects among serialisations that do not change what is signed.
type Layout struct {
	Prefix  int  `json:"prefix,omitempty"`  // 0 samlp/saml at root; 1 saml2p/saml2; 2 default namespaces; 3 saml declared locally
	Pretty  bool `json:"pretty,omitempty"`  // indent before signing
	Deflate bool `json:"deflate,omitempty"` // raw-DEFLATE before base64
	// Lex names byte-level transforms applied after signing (see lex.go).
	Lex []string `json:"lex,omitempty"`
}

func DefaultAssertion(i int) AssertionSpec {
	t := world.T0
	ids := []string{"_assert-1", "_assert-2", "_assert-3", "_assert-4"}
	names := []string{"alice@example.com", "bob@example.com", "carol@example.com", "dave@example.com"}
	return AssertionSpec{
		ID: ids[i%4], Version: "2.0", IssueInstant: TS(t), Issuer: world.IDPIssuer,
		NameID: names[i%4], Method: Bearer, Recipient: world.ACS,
		SCDNotOnOrAfter: TS(t.Add(5 * time.Minute)), SCDInResponseTo: "_req-1",
		NotBefore: TS(t.Add(-5 * time.Minute)), NotOnOrAfter: TS(t.Add(5 * time.Minute)),
		Audiences: [][]string{{world.Audience}},
		AttrStatements: [][]AttrSpec{{
			{Name: "uid", Values: []string{names[i%4][:len(names[i%4])-12]}},
			{Name: "groups", FriendlyName: "Groups", NameFormat: "urn:oasis:names:tc:SAML:2.0:attrname-format:basic", Values: []string{"admins", "users"}},
		}},
		SessionIndex: "_sess-" + ids[i%4][8:], AuthnInstant: TS(t.Add(-time.Minute)),
		SessionNotOnOrAfter: TS(t.Add(8 * time.Hour)), ClassRef: PPT,
	}
}

// DefaultResponse is a genuine Response with n assertions, nothing signed yet.
func DefaultResponse(n int) ResponseSpec {
	r := ResponseSpec{ID: "_resp-1", InResponseTo: "_req-1", Destination: world.ACS, Version: "2.0",
		IssueInstant: TS(world.T0), Issuer: world.IDPIssuer, Status: "ok"}
	for i := 0; i < n; i++ {
		r.Assertions = append(r.Assertions, DefaultAssertion(i))
	}
	return r
}

func DefaultLogout(kind string) LogoutSpec {
	l := LogoutSpec{Kind: kind, ID: "_logout-1", InResponseTo: Absent, Destination: world.SPSLO, Version: "2.0",
		IssueInstant: TS(world.T0), Issuer: world.IDPIssuer, Status: "ok", NameID: "alice@example.com", SessionIndex: "_sess-1"}
	if kind == "LogoutResponse" {
		l.InResponseTo = "_lreq-1"
	}
	return l
}
