package idp

import (
	"crypto"
	"crypto/aes"
	"crypto/cipher"
	"crypto/rsa"
	"crypto/sha1"
	"crypto/sha256"
	"crypto/sha512"
	"encoding/base64"
	"fmt"
	"hash"
	"strings"
	"sync"

	"github.com/beevik/etree"
	"github.com/russellhaering/goxmldsig/etreeutils"

	"verif/world"
)

// XML Encryption identifiers (written from the XML-Enc 1.1 text, not from the library).
const (
	AES128GCM = "http://www.w3.org/2009/xmlenc11#aes128-gcm"
	AES192GCM = "http://www.w3.org/2009/xmlenc11#aes192-gcm"
	AES256GCM = "http://www.w3.org/2009/xmlenc11#aes256-gcm"
	AES128CBC = "http://www.w3.org/2001/04/xmlenc#aes128-cbc"
	AES256CBC = "http://www.w3.org/2001/04/xmlenc#aes256-cbc"

	OAEPMGF1P = "http://www.w3.org/2001/04/xmlenc#rsa-oaep-mgf1p"
	OAEP11    = "http://www.w3.org/2009/xmlenc11#rsa-oaep"
	RSA15     = "http://www.w3.org/2001/04/xmlenc#rsa-1_5"

	EncDigSHA1   = "http://www.w3.org/2000/09/xmldsig#sha1"
	EncDigSHA256 = "http://www.w3.org/2000/09/xmldsig#sha256" // the identifier the library exports
	EncDigSHA512 = "http://www.w3.org/2000/09/xmldsig#sha512" // the identifier the library exports
)

var AllDataAlgs = []string{AES128GCM, AES192GCM, AES256GCM, AES128CBC, AES256CBC}

func KeyLen(dataAlg string) int {
	switch dataAlg {
	case AES128GCM, AES128CBC:
		return 16
	case AES192GCM:
		return 24
	default:
		return 32
	}
}

// EncSpec says how an assertion is encrypted.
type EncSpec struct {
	DataAlg   string `json:"data_alg,omitempty"`   // "" = aes128-gcm
	KeyAlg    string `json:"key_alg,omitempty"`    // "" = rsa-oaep-mgf1p
	Digest    string `json:"digest,omitempty"`     // OAEP digest identifier; "" = no DigestMethod element
	Placement string `json:"placement,omitempty"`  // "" inline; "detached"; "nokey"
	RecipCert string `json:"recip_cert,omitempty"` // "" none; key name whose default certificate is embedded; "garbage"
	ToKey     string `json:"to_key,omitempty"`     // recipient key; "" = KS
	Fill      string `json:"fill,omitempty"`       // CBC padding fill: "" zero; "pkcs7"; "ff"
	Salt      string `json:"salt,omitempty"`       // varies the (deterministic) content key and IV
	// SessionKey, when set, names the content key: elements encrypted with the same name share
	// one session key (the IV still follows the plaintext)
	SessionKey string `json:"session_key,omitempty"`
	// PadResidue r > 0: the plaintext is followed by blanks until its length is r-1 modulo 16
	// (EncryptInPlace only)
	PadResidue int `json:"pad_residue,omitempty"`
}

type ctrReader struct {
	seed [32]byte
	n    uint64
	buf  []byte
}

func (r *ctrReader) Read(p []byte) (int, error) {
	for i := range p {
		if len(r.buf) == 0 {
			h := sha256.Sum256(append(r.seed[:], byte(r.n), byte(r.n>>8), byte(r.n>>16), byte(r.n>>24)))
			r.n++
			r.buf = h[:]
		}
		p[i] = r.buf[0]
		r.buf = r.buf[1:]
	}
	return len(p), nil
}

func derive(label string, data []byte, n int) []byte {
	r := &ctrReader{seed: sha256.Sum256(append([]byte(label+"\x00"), data...))}
	out := make([]byte, n)
	r.Read(out)
	return out
}

type constRand struct{}

func (constRand) Read(p []byte) (int, error) {
	for i := range p {
		p[i] = 0x5a
	}
	return len(p), nil
}

var wrapMemo sync.Map

// WrapKey encrypts the content key to the recipient's RSA public key.
func WrapKey(toKey, keyAlg, digest string, sym []byte) []byte {
	id := fmt.Sprintf("%s|%s|%s|%x", toKey, keyAlg, digest, sym)
	if v, ok := wrapMemo.Load(id); ok {
		return v.([]byte)
	}
	pub := &world.RSAKey(toKey).PublicKey
	var out []byte
	var err error
	switch keyAlg {
	case "", OAEPMGF1P, OAEP11:
		var h hash.Hash
		switch digest {
		case "", EncDigSHA1:
			h = sha1.New()
		case EncDigSHA256:
			h = sha256.New()
		case EncDigSHA512:
			h = sha512.New()
		default:
			h = sha1.New()
		}
		out, err = rsa.EncryptOAEP(h, constRand{}, pub, sym, nil)
	case RSA15:
		out, err = rsa.EncryptPKCS1v15(constRand{}, pub, sym)
	default:
		// unknown transport identifier: wrap with OAEP/SHA-1 anyway, the identifier is what is under test
		out, err = rsa.EncryptOAEP(sha1.New(), constRand{}, pub, sym, nil)
	}
	if err != nil {
		panic(err)
	}
	wrapMemo.Store(id, out)
	return out
}

// EncryptData implements XML-Enc block encryption: GCM = IV(12) || ciphertext || tag;
// CBC = IV(16) || blocks, padded to the block size with the final byte holding the pad
// length and the other pad bytes arbitrary.
func EncryptData(dataAlg string, key, iv, plaintext []byte, fill string) []byte {
	blk, err := aes.NewCipher(key)
	if err != nil {
		panic(err)
	}
	switch dataAlg {
	case AES128GCM, AES192GCM, AES256GCM:
		g, err := cipher.NewGCM(blk)
		if err != nil {
			panic(err)
		}
		return append(append([]byte{}, iv[:12]...), g.Seal(nil, iv[:12], plaintext, nil)...)
	default:
		n := 16 - len(plaintext)%16
		padded := append([]byte{}, plaintext...)
		for i := 0; i < n-1; i++ {
			switch fill {
			case "pkcs7":
				padded = append(padded, byte(n))
			case "ff":
				padded = append(padded, 0xff)
			default:
				padded = append(padded, 0)
			}
		}
		padded = append(padded, byte(n))
		out := make([]byte, 16+len(padded))
		copy(out, iv[:16])
		cipher.NewCBCEncrypter(blk, iv[:16]).CryptBlocks(out[16:], padded)
		return out
	}
}

func xe(parent *etree.Element, tag string) *etree.Element {
	e := parent.CreateElement(tag)
	e.Space = "xenc"
	return e
}

func encryptedKeyEl(parent *etree.Element, e EncSpec, sym []byte) *etree.Element {
	to := e.ToKey
	if to == "" {
		to = "KS"
	}
	keyAlg := e.KeyAlg
	if keyAlg == "" {
		keyAlg = OAEPMGF1P
	}
	ek := xe(parent, "EncryptedKey")
	em := xe(ek, "EncryptionMethod")
	if keyAlg != "-" {
		em.CreateAttr("Algorithm", keyAlg)
	}
	if e.Digest != "" {
		dm := dsEl(em, "DigestMethod")
		dm.CreateAttr("Algorithm", e.Digest)
	}
	if e.RecipCert != "" {
		ki := dsEl(ek, "KeyInfo")
		xd := dsEl(ki, "X509Data")
		if e.RecipCert == "garbage" {
			dsEl(xd, "X509Certificate").SetText("!!!not base64!!!")
		} else {
			dsEl(xd, "X509Certificate").SetText(RecipCertText(e.RecipCert))
		}
	}
	cd := xe(ek, "CipherData")
	xe(cd, "CipherValue").SetText(base64.StdEncoding.EncodeToString(WrapKey(to, keyAlg, e.Digest, sym)))
	return ek
}

// RecipCertText renders the recipient certificate named by spec: a key name, optionally
// followed by "~variant" for a near miss of that certificate (valid base64 of other bytes):
// caseswap (every base64 letter in the other case), firstletter, truncated (last DER byte
// dropped), trailing (one byte appended), bitflip (last DER byte changed), wrapped (the very
// certificate, its base64 broken into 64-column lines: the same bytes).
func RecipCertText(spec string) string {
	name, variant := spec, ""
	if i := strings.Index(spec, "~"); i >= 0 {
		name, variant = spec[:i], spec[i+1:]
	}
	der := append([]byte(nil), world.Cert(name).Raw...)
	swap := func(r rune) rune {
		switch {
		case r >= 'a' && r <= 'z':
			return r - 'a' + 'A'
		case r >= 'A' && r <= 'Z':
			return r - 'A' + 'a'
		}
		return r
	}
	switch variant {
	case "truncated":
		der = der[:len(der)-1]
	case "trailing":
		der = append(der, 0)
	case "bitflip":
		der[len(der)-1] ^= 1
	}
	text := base64.StdEncoding.EncodeToString(der)
	switch variant {
	case "caseswap":
		text = strings.Map(swap, text)
	case "firstletter":
		text = string(swap(rune(text[0]))) + text[1:]
	case "crlf":
		// the very certificate, wrapped at 64 columns with CR LF line ends
		var b strings.Builder
		for i := 0; i < len(text); i += 64 {
			b.WriteString(text[i:min(i+64, len(text))])
			b.WriteString("\r\n")
		}
		text = b.String()
	case "wrapped":
		var b strings.Builder
		for i := 0; i < len(text); i += 64 {
			b.WriteString(text[i:min(i+64, len(text))])
			b.WriteString("\n")
		}
		text = b.String()
	}
	return text
}

// EncryptedAssertionEl builds a saml:EncryptedAssertion around the given ciphertext pieces.
// It is exported so that C09 can put arbitrary ciphertext in.
func EncryptedAssertionEl(e EncSpec, sym []byte, cipherValue []byte) *etree.Element {
	dataAlg := e.DataAlg
	if dataAlg == "" {
		dataAlg = AES128GCM
	}
	ea := &etree.Element{Space: "saml", Tag: "EncryptedAssertion"}
	ea.CreateAttr("xmlns:saml", NSA)
	ea.CreateAttr("xmlns:xenc", NSXE)
	ea.CreateAttr("xmlns:ds", NSDS)
	ed := xe(ea, "EncryptedData")
	ed.CreateAttr("Type", "http://www.w3.org/2001/04/xmlenc#Element")
	if dataAlg == "-" {
		dataAlg = ""
	}
	xe(ed, "EncryptionMethod").CreateAttr("Algorithm", dataAlg)
	switch e.Placement {
	case "":
		ki := dsEl(ed, "KeyInfo")
		encryptedKeyEl(ki, e, sym)
	case "detached":
		ki := dsEl(ed, "KeyInfo")
		rm := dsEl(ki, "RetrievalMethod")
		rm.CreateAttr("URI", "#_ek-1")
		rm.CreateAttr("Type", "http://www.w3.org/2001/04/xmlenc#EncryptedKey")
	case "both":
		// an inline EncryptedKey (naming whatever recipient the spec says) and, beside the
		// EncryptedData, a second EncryptedKey for the same content key that names no recipient
		ki := dsEl(ed, "KeyInfo")
		encryptedKeyEl(ki, e, sym)
	case "nokey":
	}
	cd := xe(ed, "CipherData")
	xe(cd, "CipherValue").SetText(base64.StdEncoding.EncodeToString(cipherValue))
	if e.Placement == "detached" {
		ek := encryptedKeyEl(ea, e, sym)
		ek.CreateAttr("Id", "_ek-1")
	}
	if e.Placement == "both" {
		plain := e
		plain.RecipCert = ""
		ek := encryptedKeyEl(ea, plain, sym)
		ek.CreateAttr("Id", "_ek-1")
	}
	return ea
}

// EncryptPlaintext encrypts arbitrary bytes as an EncryptedAssertion element.
func EncryptPlaintext(plaintext []byte, e EncSpec) *etree.Element {
	dataAlg := e.DataAlg
	if dataAlg == "" {
		dataAlg = AES128GCM
	}
	seed := append([]byte(e.Salt+"|"+dataAlg+"|"), plaintext...)
	sym := derive("key", seed, KeyLen(dataAlg))
	if e.SessionKey != "" {
		sym = derive("key", []byte("session|"+e.SessionKey+"|"+dataAlg), KeyLen(dataAlg))
	}
	iv := derive("iv", seed, 16)
	return EncryptedAssertionEl(e, sym, EncryptData(dataAlg, sym, iv, plaintext, e.Fill))
}

// StandaloneBytes serialises el as a self-contained document: every namespace in scope at
// el is declared on it (what an IdP encrypts, and what the SP parses after decryption).
func StandaloneBytes(el *etree.Element) []byte {
	ctx, err := etreeutils.NSBuildParentContext(el)
	if err != nil {
		panic(err)
	}
	det, err := etreeutils.NSDetatch(ctx, el)
	if err != nil {
		panic(err)
	}
	d := etree.NewDocument()
	d.WriteSettings = canonWS
	d.SetRoot(det)
	b, err := d.WriteToBytes()
	if err != nil {
		panic(err)
	}
	return b
}

// RespellEA changes where the namespace prefixes of an EncryptedAssertion element (already placed
// under root) are declared, without changing what it means: 1 = the saml prefix of the element
// itself is declared on the root only; 2 = saml, xenc and ds are all declared on the root only;
// 3 = the element is in a locally declared default namespace.
func RespellEA(ea, root *etree.Element, style int) {
	ensure := func(prefix, ns string) {
		for _, a := range root.Attr {
			if a.Space == "xmlns" && a.Key == prefix {
				return
			}
		}
		root.CreateAttr("xmlns:"+prefix, ns)
	}
	switch style {
	case 1:
		ea.RemoveAttr("xmlns:saml")
		ensure("saml", NSA)
	case 2:
		ea.RemoveAttr("xmlns:saml")
		ea.RemoveAttr("xmlns:xenc")
		ea.RemoveAttr("xmlns:ds")
		ensure("saml", NSA)
		ensure("xenc", NSXE)
		ensure("ds", NSDS)
	case 3:
		ea.RemoveAttr("xmlns:saml")
		ea.Space = ""
		ea.CreateAttr("xmlns", NSA)
	}
}

// EncryptInPlace replaces el by its EncryptedAssertion in el's parent, at the same position.
func EncryptInPlace(el *etree.Element, e EncSpec) *etree.Element {
	parent := el.Parent()
	pt := StandaloneBytes(el)
	for e.PadResidue > 0 && len(pt)%16 != e.PadResidue-1 {
		pt = append(pt, ' ')
	}
	ea := EncryptPlaintext(pt, e)
	idx := el.Index()
	parent.RemoveChildAt(idx)
	parent.InsertChildAt(idx, ea)
	return ea
}

var _ = crypto.SHA1

// DecryptEA is the harness's own XML-Enc decryptor (written from the XML-Enc text): given an
// EncryptedAssertion element and the recipient key name it returns the plaintext, or nil if
// the element cannot be decrypted. It is used by oracles to know what an attacker-made
// EncryptedAssertion contains; it is deliberately lenient about what it accepts.
func DecryptEA(ea *etree.Element, keyName string) []byte {
	find := func(el *etree.Element, tag string) *etree.Element {
		for _, c := range el.ChildElements() {
			if c.Tag == tag {
				return c
			}
		}
		return nil
	}
	ed := find(ea, "EncryptedData")
	if ed == nil {
		return nil
	}
	em := find(ed, "EncryptionMethod")
	cd := find(ed, "CipherData")
	if em == nil || cd == nil || find(cd, "CipherValue") == nil {
		return nil
	}
	dataAlg := em.SelectAttrValue("Algorithm", "")
	ct, err := base64.StdEncoding.DecodeString(find(cd, "CipherValue").Text())
	if err != nil {
		return nil
	}
	var ek *etree.Element
	if ki := find(ed, "KeyInfo"); ki != nil {
		ek = find(ki, "EncryptedKey")
	}
	if ek == nil {
		ek = find(ea, "EncryptedKey")
	}
	if ek == nil {
		return nil
	}
	kem := find(ek, "EncryptionMethod")
	kcd := find(ek, "CipherData")
	if kem == nil || kcd == nil || find(kcd, "CipherValue") == nil {
		return nil
	}
	wrapped, err := base64.StdEncoding.DecodeString(find(kcd, "CipherValue").Text())
	if err != nil {
		return nil
	}
	priv := world.RSAKey(keyName)
	var sym []byte
	switch kem.SelectAttrValue("Algorithm", "") {
	case OAEPMGF1P, OAEP11:
		var h hash.Hash = sha1.New()
		if dm := find(kem, "DigestMethod"); dm != nil {
			switch dm.SelectAttrValue("Algorithm", "") {
			case EncDigSHA256:
				h = sha256.New()
			case EncDigSHA512:
				h = sha512.New()
			}
		}
		sym, err = rsa.DecryptOAEP(h, nil, priv, wrapped, nil)
	case RSA15:
		sym, err = rsa.DecryptPKCS1v15(nil, priv, wrapped)
	default:
		return nil
	}
	if err != nil {
		return nil
	}
	blk, err := aes.NewCipher(sym)
	if err != nil {
		return nil
	}
	switch dataAlg {
	case AES128GCM, AES192GCM, AES256GCM:
		g, _ := cipher.NewGCM(blk)
		if len(ct) < 12+16 {
			return nil
		}
		pt, err := g.Open(nil, ct[:12], ct[12:], nil)
		if err != nil {
			return nil
		}
		return pt
	case AES128CBC, AES256CBC:
		if len(ct) < 32 || len(ct)%16 != 0 {
			return nil
		}
		out := make([]byte, len(ct)-16)
		cipher.NewCBCDecrypter(blk, ct[:16]).CryptBlocks(out, ct[16:])
		n := int(out[len(out)-1])
		if n < 1 || n > 16 || n > len(out) {
			return nil
		}
		return out[:len(out)-n]
	}
	return nil
}

// RawCBC returns IV || AES-CBC(raw) with no padding added (len(raw) must be a multiple of 16).
func RawCBC(key, iv, raw []byte) []byte {
	blk, err := aes.NewCipher(key)
	if err != nil {
		panic(err)
	}
	out := make([]byte, 16+len(raw))
	copy(out, iv[:16])
	cipher.NewCBCEncrypter(blk, iv[:16]).CryptBlocks(out[16:], raw)
	return out
}
