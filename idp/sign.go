package idp

import (
	"crypto"
	"crypto/ecdsa"
	"crypto/rand"
	"crypto/rsa"
	_ "crypto/sha1"
	_ "crypto/sha256"
	_ "crypto/sha512"
	"encoding/base64"
	"fmt"
	"strings"
	"sync"

	"github.com/beevik/etree"
	dsig "github.com/russellhaering/goxmldsig"
	"github.com/russellhaering/goxmldsig/etreeutils"

	"verif/world"
)

const (
	C14NExc      = "http://www.w3.org/2001/10/xml-exc-c14n#"
	C14NExcCom   = "http://www.w3.org/2001/10/xml-exc-c14n#WithComments"
	C14N11       = "http://www.w3.org/2006/12/xml-c14n11"
	C14N11Com    = "http://www.w3.org/2006/12/xml-c14n11#WithComments"
	C14N10       = "http://www.w3.org/TR/2001/REC-xml-c14n-20010315"
	C14N10Com    = "http://www.w3.org/TR/2001/REC-xml-c14n-20010315#WithComments"
	EnvelopedSig = "http://www.w3.org/2000/09/xmldsig#enveloped-signature"

	DigSHA1   = "http://www.w3.org/2000/09/xmldsig#sha1"
	DigSHA256 = "http://www.w3.org/2001/04/xmlenc#sha256"
	DigSHA384 = "http://www.w3.org/2001/04/xmldsig-more#sha384"
	DigSHA512 = "http://www.w3.org/2001/04/xmlenc#sha512"
)

var AllC14N = []string{C14NExc, C14NExcCom, C14N11, C14N11Com, C14N10, C14N10Com}
var AllDigests = []string{DigSHA1, DigSHA256, DigSHA384, DigSHA512}

var digestHash = map[string]crypto.Hash{DigSHA1: crypto.SHA1, DigSHA256: crypto.SHA256, DigSHA384: crypto.SHA384, DigSHA512: crypto.SHA512}

var sigHash = map[string]crypto.Hash{
	dsig.RSASHA1SignatureMethod: crypto.SHA1, dsig.RSASHA256SignatureMethod: crypto.SHA256,
	dsig.RSASHA384SignatureMethod: crypto.SHA384, dsig.RSASHA512SignatureMethod: crypto.SHA512,
	dsig.ECDSASHA1SignatureMethod: crypto.SHA1, dsig.ECDSASHA256SignatureMethod: crypto.SHA256,
	dsig.ECDSASHA384SignatureMethod: crypto.SHA384, dsig.ECDSASHA512SignatureMethod: crypto.SHA512,
}

// Canonicalizer maps an algorithm URI to goxmldsig's implementation (trusted base).
func Canonicalizer(uri, prefixList string) dsig.Canonicalizer {
	switch uri {
	case "", C14NExc:
		return dsig.MakeC14N10ExclusiveCanonicalizerWithPrefixList(prefixList)
	case C14NExcCom:
		return dsig.MakeC14N10ExclusiveWithCommentsCanonicalizerWithPrefixList(prefixList)
	case C14N11:
		return dsig.MakeC14N11Canonicalizer()
	case C14N11Com:
		return dsig.MakeC14N11WithCommentsCanonicalizer()
	case C14N10:
		return dsig.MakeC14N10RecCanonicalizer()
	case C14N10Com:
		return dsig.MakeC14N10WithCommentsCanonicalizer()
	}
	panic("unknown c14n " + uri)
}

// RSA PKCS#1 v1.5 signatures are deterministic, so they are memoised by (key, hash, digest).
var sigMemo sync.Map

func rawSign(keyName string, h crypto.Hash, digest []byte) []byte {
	k := world.Key(keyName)
	if rk, ok := k.(*rsa.PrivateKey); ok {
		id := fmt.Sprintf("%s/%d/%x", keyName, h, digest)
		if v, ok := sigMemo.Load(id); ok {
			return v.([]byte)
		}
		s, err := rsa.SignPKCS1v15(nil, rk, h, digest)
		if err != nil {
			panic(err)
		}
		sigMemo.Store(id, s)
		return s
	}
	s, err := k.Sign(rand.Reader, digest, h)
	if err != nil {
		panic(err)
	}
	return s
}

func hashBytes(h crypto.Hash, b []byte) []byte {
	x := h.New()
	x.Write(b)
	return x.Sum(nil)
}

// CanonicalOf returns the canonical bytes of el as a validator that first detaches el in its
// namespace context would compute them (el itself is not modified).
func CanonicalOf(el *etree.Element, c14n, prefixList string) []byte {
	ctx, err := etreeutils.NSBuildParentContext(el)
	if err != nil {
		panic(err)
	}
	det, err := etreeutils.NSDetatch(ctx, el)
	if err != nil {
		panic(err)
	}
	out, err := Canonicalizer(c14n, prefixList).Canonicalize(det)
	if err != nil {
		panic(err)
	}
	return out
}

func dsEl(parent *etree.Element, tag string) *etree.Element {
	e := parent.CreateElement(tag)
	e.Space = "ds"
	return e
}

// SignInPlace computes an enveloped signature over el (which must not yet contain one of its
// own) and inserts ds:Signature right after el's Issuer child (or first). Returns the
// Signature element.
func SignInPlace(el *etree.Element, s SignSpec) *etree.Element {
	key := world.Key(s.Key)
	sigAlg := s.SigAlg
	if sigAlg == "" {
		if _, ok := key.(*ecdsa.PrivateKey); ok {
			sigAlg = dsig.ECDSASHA256SignatureMethod
		} else {
			sigAlg = dsig.RSASHA256SignatureMethod
		}
	}
	digAlg := s.Digest
	if digAlg == "" {
		digAlg = DigSHA256
	}
	c14n := s.C14N
	if c14n == "" {
		c14n = C14NExc
	}
	var nest *etree.Element
	if s.Nested != "" {
		nest = &etree.Element{Space: "samlp", Tag: s.Nested}
		nest.CreateAttr("xmlns:samlp", NSP)
		idx := 0
		for i, ch := range el.Child {
			if ce, ok := ch.(*etree.Element); ok {
				if ce.Tag == "Issuer" {
					idx = i + 1
				}
				break
			}
		}
		el.InsertChildAt(idx, nest)
	}
	digest := hashBytes(digestHash[digAlg], CanonicalOf(el, c14n, s.PrefixList))

	sig := &etree.Element{Space: "ds", Tag: "Signature"}
	sig.CreateAttr("xmlns:ds", NSDS)
	si := dsEl(sig, "SignedInfo")
	dsEl(si, "CanonicalizationMethod").CreateAttr("Algorithm", c14n)
	dsEl(si, "SignatureMethod").CreateAttr("Algorithm", sigAlg)
	ref := dsEl(si, "Reference")
	switch s.RefURI {
	case "":
		id := el.SelectAttrValue("ID", "")
		if id == "" {
			ref.CreateAttr("URI", "")
		} else {
			ref.CreateAttr("URI", "#"+id)
		}
	case Absent:
		ref.CreateAttr("URI", "")
	default:
		ref.CreateAttr("URI", s.RefURI)
	}
	trs := dsEl(ref, "Transforms")
	dsEl(trs, "Transform").CreateAttr("Algorithm", EnvelopedSig)
	tr := dsEl(trs, "Transform")
	tr.CreateAttr("Algorithm", c14n)
	if s.PrefixList != "" && (c14n == C14NExc || c14n == C14NExcCom) {
		inc := tr.CreateElement("InclusiveNamespaces")
		inc.Space = "ec"
		inc.CreateAttr("xmlns:ec", C14NExc)
		inc.CreateAttr("PrefixList", s.PrefixList)
	}
	dsEl(ref, "DigestMethod").CreateAttr("Algorithm", digAlg)
	dsEl(ref, "DigestValue").SetText(wrap64(base64.StdEncoding.EncodeToString(digest), s.Wrap64, s.Indent))

	// insert now so that SignedInfo is canonicalised in its real namespace context
	idx := 0
	for i, ch := range el.Child {
		if ce, ok := ch.(*etree.Element); ok {
			if ce.Tag == "Issuer" {
				idx = i + 1
			}
			break
		}
	}
	if nest != nil {
		nest.AddChild(sig)
	} else {
		el.InsertChildAt(idx, sig)
	}

	// SignedInfo is always canonicalised without a prefix list (that is what the verifier does)
	siBytes := CanonicalOf(si, c14n, "")
	raw := rawSign(s.Key, sigHash[sigAlg], hashBytes(sigHash[sigAlg], siBytes))
	dsEl(sig, "SignatureValue").SetText(wrap64(base64.StdEncoding.EncodeToString(raw), s.Wrap64, s.Indent))

	certKey := s.Key
	mode := s.KeyInfo
	if strings.HasPrefix(mode, "cert:") {
		certKey = strings.TrimPrefix(mode, "cert:")
		mode = ""
	}
	switch mode {
	case "":
		ki := dsEl(sig, "KeyInfo")
		xd := dsEl(ki, "X509Data")
		dsEl(xd, "X509Certificate").SetText(wrap64(base64.StdEncoding.EncodeToString(world.Cert(certKey).Raw), s.Wrap64, s.Indent))
	case "none":
	case "empty":
		ki := dsEl(sig, "KeyInfo")
		dsEl(ki, "X509Data")
	case "garbage":
		ki := dsEl(sig, "KeyInfo")
		xd := dsEl(ki, "X509Data")
		dsEl(xd, "X509Certificate").SetText("AAAAnotacertificateAAAA")
	default:
		panic("unknown keyinfo mode " + mode)
	}

	switch s.Tamper {
	case "":
	case "content":
		// alter signed content: append a character to the first text-bearing descendant outside the signature
		tamperContent(el, sig)
	case "sigvalue":
		sv := sig.FindElement("./SignatureValue")
		b, _ := base64.StdEncoding.DecodeString(strings.Join(strings.Fields(sv.Text()), ""))
		b[len(b)/2] ^= 0x01
		sv.SetText(wrap64(base64.StdEncoding.EncodeToString(b), s.Wrap64, s.Indent))
	case "digest":
		dv := sig.FindElement("./SignedInfo/Reference/DigestValue")
		b, _ := base64.StdEncoding.DecodeString(strings.Join(strings.Fields(dv.Text()), ""))
		b[0] ^= 0x01
		dv.SetText(wrap64(base64.StdEncoding.EncodeToString(b), s.Wrap64, s.Indent))
	default:
		panic("unknown tamper " + s.Tamper)
	}
	return sig
}

// wrap64 inserts a line feed after every 64 characters (and around the text) when on.
func wrap64(b64 string, on bool, indent ...bool) string {
	if !on {
		return b64
	}
	pad := ""
	if len(indent) > 0 && indent[0] {
		pad = "        "
	}
	var sb strings.Builder
	sb.WriteString("\n")
	for i := 0; i < len(b64); i += 64 {
		j := i + 64
		if j > len(b64) {
			j = len(b64)
		}
		sb.WriteString(pad)
		sb.WriteString(b64[i:j])
		sb.WriteString("\n")
	}
	sb.WriteString(pad)
	return sb.String()
}

func tamperContent(el, sig *etree.Element) {
	// an attribute every message has; the new value is still a valid instant
	if a := el.SelectAttr("IssueInstant"); a != nil {
		a.Value = "2030-01-01T12:00:01Z"
		return
	}
	el.CreateAttr("Tampered", "1")
}
