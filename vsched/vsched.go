// Package vsched is a cooperative, controlled scheduler plus sync-compatible shims.
//
// It is injected (go build -overlay) into the module path of the library under test as
// github.com/russellhaering/gosaml2/vsched, so that the instrumented copy of the library and
// the harness share one instance. With no exploration active every shim behaves like the
// real sync primitive and Yield is a no-op.
//
// Under Run, the managed goroutines ("threads") execute one at a time. Control returns to
// the scheduler at every scheduling point: each operation of a shim and each Yield inserted
// by the instrumenter before statements that touch shared mutable state. Blocking is
// modelled (a thread waiting for a held lock is not enabled); "no enabled thread and not all
// finished" is reported as a deadlock.
package vsched

import (
	"fmt"
	"runtime"
	realsync "sync"
)

// Picker decides which enabled thread runs next. enabled is in canonical order: the thread
// that was running first (if it is still enabled), then ascending ids. currentEnabled tells
// whether enabled[0] is the running thread (so choosing another index is a preemption).
type Picker func(enabled []int, currentEnabled bool, label string) int

type event struct {
	kind  int // 0 point, 1 done, 2 panic
	label string
	pval  interface{}
}

type thread struct {
	id      int
	resume  chan struct{}
	blocked interface{} // the lock this thread waits for, or nil
	done    bool
}

type sched struct {
	threads []*thread
	cur     int
	events  chan event
	points  int
	maxPts  int
}

var (
	mu     realsync.Mutex
	active *sched
)

// Result describes one controlled execution.
type Result struct {
	Points     int
	Deadlock   bool
	Livelock   bool // the horizon was reached
	Panics     []string
	Trace      []int // thread id chosen at every point
	Preempted  int
	Labels     []string
}

// Current returns the id of the running managed thread, or -1 when no exploration is active.
func Current() int {
	s := active
	if s == nil {
		return -1
	}
	return s.cur
}

// Run executes the bodies as managed threads under pick. horizon bounds the number of
// scheduling points (0 = 100000).
func Run(pick Picker, horizon int, bodies ...func()) Result {
	mu.Lock()
	defer mu.Unlock()
	if horizon <= 0 {
		horizon = 100000
	}
	s := &sched{events: make(chan event), maxPts: horizon}
	var res Result
	for i, b := range bodies {
		t := &thread{id: i, resume: make(chan struct{})}
		s.threads = append(s.threads, t)
		b := b
		go func() {
			<-t.resume
			defer func() {
				if r := recover(); r != nil {
					buf := make([]byte, 2048)
					n := runtime.Stack(buf, false)
					s.events <- event{kind: 2, pval: fmt.Sprintf("%v\n%s", r, buf[:n])}
					return
				}
				s.events <- event{kind: 1}
			}()
			b()
		}()
	}
	active = s
	defer func() { active = nil }()
	s.cur = -1
	label := "start"
	for {
		var enabled []int
		curEnabled := false
		if s.cur >= 0 && !s.threads[s.cur].done && s.threads[s.cur].blocked == nil {
			enabled = append(enabled, s.cur)
			curEnabled = true
		}
		for _, t := range s.threads {
			if t.id != s.cur && !t.done && t.blocked == nil {
				enabled = append(enabled, t.id)
			}
		}
		if len(enabled) == 0 {
			all := true
			for _, t := range s.threads {
				if !t.done {
					all = false
				}
			}
			if !all {
				res.Deadlock = true
			}
			break
		}
		if s.points >= s.maxPts {
			res.Livelock = true
			break
		}
		idx := 0
		if len(enabled) > 1 {
			idx = pick(enabled, curEnabled, label)
			if idx < 0 || idx >= len(enabled) {
				panic(fmt.Sprintf("vsched: picker returned %d of %d", idx, len(enabled)))
			}
			if curEnabled && idx != 0 {
				res.Preempted++
			}
		}
		next := enabled[idx]
		res.Trace = append(res.Trace, next)
		res.Labels = append(res.Labels, label)
		s.cur = next
		s.threads[next].resume <- struct{}{}
		ev := <-s.events
		s.points++
		switch ev.kind {
		case 0:
			label = ev.label
		case 1:
			s.threads[next].done = true
			label = "done"
		case 2:
			s.threads[next].done = true
			res.Panics = append(res.Panics, fmt.Sprint(ev.pval))
			label = "panic"
		}
	}
	res.Points = s.points
	// threads left blocked (deadlock / horizon) are abandoned: they wait on resume forever and
	// are collected with the process; the instance they used must not be reused
	return res
}

// point hands control to the scheduler and waits to be resumed.
func point(label string) {
	s := active
	if s == nil {
		return
	}
	t := s.threads[s.cur]
	s.events <- event{kind: 0, label: label}
	<-t.resume
}

// Yield is a scheduling point with no other effect. The instrumenter inserts it before every
// statement that reads or writes shared mutable state.
func Yield(label string) { point(label) }

// block marks the running thread as waiting for lock l and hands control to the scheduler.
func block(l interface{}, label string) {
	s := active
	t := s.threads[s.cur]
	t.blocked = l
	s.events <- event{kind: 0, label: label + " (blocked)"}
	<-t.resume
}

// wake enables every thread waiting for l.
func wake(l interface{}) {
	s := active
	if s == nil {
		return
	}
	for _, t := range s.threads {
		if t.blocked == l {
			t.blocked = nil
		}
	}
}

// ---- shims ----

// Mutex is sync.Mutex under the scheduler.
type Mutex struct {
	real   realsync.Mutex
	locked bool
}

func (m *Mutex) Lock() {
	if active == nil {
		m.real.Lock()
		return
	}
	point("Mutex.Lock")
	for m.locked {
		block(m, "Mutex.Lock")
	}
	m.locked = true
}

func (m *Mutex) Unlock() {
	if active == nil {
		m.real.Unlock()
		return
	}
	if !m.locked {
		panic("sync: unlock of unlocked mutex")
	}
	m.locked = false
	wake(m)
	point("Mutex.Unlock")
}

func (m *Mutex) TryLock() bool {
	if active == nil {
		return m.real.TryLock()
	}
	point("Mutex.TryLock")
	if m.locked {
		return false
	}
	m.locked = true
	return true
}

// RWMutex is sync.RWMutex under the scheduler.
type RWMutex struct {
	real    realsync.RWMutex
	writer  bool
	readers int
}

func (m *RWMutex) Lock() {
	if active == nil {
		m.real.Lock()
		return
	}
	point("RWMutex.Lock")
	for m.writer || m.readers > 0 {
		block(m, "RWMutex.Lock")
	}
	m.writer = true
}

func (m *RWMutex) Unlock() {
	if active == nil {
		m.real.Unlock()
		return
	}
	if !m.writer {
		panic("sync: Unlock of unlocked RWMutex")
	}
	m.writer = false
	wake(m)
	point("RWMutex.Unlock")
}

func (m *RWMutex) RLock() {
	if active == nil {
		m.real.RLock()
		return
	}
	point("RWMutex.RLock")
	for m.writer {
		block(m, "RWMutex.RLock")
	}
	m.readers++
}

func (m *RWMutex) RUnlock() {
	if active == nil {
		m.real.RUnlock()
		return
	}
	if m.readers <= 0 {
		panic("sync: RUnlock of unlocked RWMutex")
	}
	m.readers--
	if m.readers == 0 {
		wake(m)
	}
	point("RWMutex.RUnlock")
}

func (m *RWMutex) RLocker() realsync.Locker { return (*rlocker)(m) }

type rlocker RWMutex

func (r *rlocker) Lock()   { (*RWMutex)(r).RLock() }
func (r *rlocker) Unlock() { (*RWMutex)(r).RUnlock() }

// Once is sync.Once under the scheduler.
type Once struct {
	real realsync.Once
	done bool
	m    Mutex
}

func (o *Once) Do(f func()) {
	if active == nil {
		o.real.Do(func() {
			f()
			o.done = true
		})
		return
	}
	point("Once.Do")
	if o.done {
		return
	}
	o.m.Lock()
	defer o.m.Unlock()
	if !o.done {
		defer func() { o.done = true }()
		f()
	}
}

// Locker mirrors sync.Locker.
type Locker = realsync.Locker

// WaitGroup, Pool, Map and Cond are passed through unchanged: the library does not use them
// today; if an edit introduces them the instrumenter reports the construct as not modelled.
type WaitGroup = realsync.WaitGroup
type Pool = realsync.Pool
type Map = realsync.Map
