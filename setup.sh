#!/bin/bash
# Pre-builds the framework (offline) so that first-run compile time is not charged to a check.
cd "$(dirname "$0")" || exit 2
export GOFLAGS=-mod=mod GOPROXY=off GOSUMDB=off GOTOOLCHAIN=local
mkdir -p bin evidence replays
go build -o bin/vcheck ./cmd/vcheck || exit 1
[ -x ./sched.sh ] && ./sched.sh prebuild
exit 0
