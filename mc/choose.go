// Package mc holds the exploration engines shared by every check:
//
//   - Enumerate: stateless choice-point DFS with a deviation bound (E-CHOICE)
//   - BFS:       explicit-state breadth-first search over hashed states (E-BFS)
//   - Run:       evidence, histogram, violations, known findings, replay files
//
// The scheduler (E-SCHED) lives in the overlay package vsched because it has to be
// importable from the rewritten copy of the library.
package mc

import "fmt"

// Chooser answers the environment's questions for one execution of a driver. It replays a
// prefix of recorded answers and answers 0 (the default) everywhere after it.
type Chooser struct {
	prefix  []int
	choices []int
	ns      []int
	names   []string
	free    []bool
}

// Choose returns a value in [0,n). n must be ≥ 1. While replaying a prefix an out-of-range
// recorded answer is a hard error: it means the driver is not deterministic.
func (c *Chooser) Choose(name string, n int) int { return c.choose(name, n, false) }

// ChooseFree is Choose for a point whose non-default answers do not count as deviations
// (for a scheduler: picking a thread when the running one is blocked or finished is not a
// preemption).
func (c *Chooser) ChooseFree(name string, n int) int { return c.choose(name, n, true) }

func (c *Chooser) choose(name string, n int, free bool) int {
	if n < 1 {
		panic(fmt.Sprintf("mc: Choose(%q, %d)", name, n))
	}
	i := len(c.choices)
	v := 0
	if i < len(c.prefix) {
		v = c.prefix[i]
		if v >= n {
			panic(fmt.Sprintf("mc: replay divergence at point %d (%s): recorded %d, only %d enabled", i, name, v, n))
		}
	}
	c.choices = append(c.choices, v)
	c.ns = append(c.ns, n)
	c.names = append(c.names, name)
	c.free = append(c.free, free)
	return v
}

// Bool is Choose(name, 2) == 1.
func (c *Chooser) Bool(name string) bool { return c.Choose(name, 2) == 1 }

// Trace returns the answers given so far (a replayable choice vector).
func (c *Chooser) Trace() []int { return append([]int(nil), c.choices...) }

// Names returns the names of the points met so far.
func (c *Chooser) Names() []string { return append([]string(nil), c.names...) }

// Deviations counts the non-default answers given so far.
func (c *Chooser) Deviations() int {
	d := 0
	for _, v := range c.choices {
		if v != 0 {
			d++
		}
	}
	return d
}

// Replay runs gen once with exactly the given choice vector.
func Replay(vector []int, gen func(c *Chooser)) {
	c := &Chooser{prefix: vector}
	gen(c)
}

// Enumerate runs gen once for every choice vector in which at most bound answers are
// non-default (bound < 0: no bound, i.e. the full product). It returns the number of runs.
// stop, if non-nil, is polled between runs; when it returns true the enumeration ends early
// and complete is false.
func Enumerate(bound int, stop func() bool, gen func(c *Chooser)) (runs int, complete bool) {
	complete = true
	var rec func(prefix []int, dev int)
	rec = func(prefix []int, dev int) {
		if !complete {
			return
		}
		if stop != nil && stop() {
			complete = false
			return
		}
		c := &Chooser{prefix: prefix}
		gen(c)
		runs++
		if len(c.choices) < len(prefix) {
			panic("mc: driver met fewer choice points than the prefix it was given")
		}
		choices, ns, free := c.choices, c.ns, c.free
		for i := len(prefix); i < len(choices); i++ {
			cost := 1
			if free[i] {
				cost = 0
			}
			if bound >= 0 && dev+cost > bound {
				continue
			}
			for alt := 1; alt < ns[i]; alt++ {
				np := make([]int, i+1)
				copy(np, choices[:i])
				np[i] = alt
				rec(np, dev+cost)
				if !complete {
					return
				}
			}
		}
	}
	rec(nil, 0)
	return runs, complete
}
