package mc

import (
	"crypto/sha256"
	"runtime"
	"sync"
)

// BFSState is one state of an explicit-state search. Key must be a canonical form: two
// states with the same key must have the same futures under the transition relation.
type BFSState interface {
	Key() []byte
}

// BFSResult reports what a search covered.
type BFSResult struct {
	States         int
	Transitions    int
	DepthCompleted int  // deepest level whose every state was visited
	Complete       bool // false when stop() ended the search early
	PerLevel       []int
}

// BFS explores breadth-first from init up to maxDepth transitions. visit is called exactly
// once per distinct state (concurrently, from worker goroutines) with the depth at which the
// state was first reached; succ returns the successors of a state. States at the last level
// are visited but not expanded and not retained (only their hash is kept), so memory is
// bounded by the widest level below maxDepth.
func BFS(init []BFSState, maxDepth int, stop func() bool, succ func(BFSState) []BFSState, visit func(s BFSState, depth int)) BFSResult {
	type hkey [20]byte
	hash := func(s BFSState) hkey {
		h := sha256.Sum256(s.Key())
		var k hkey
		copy(k[:], h[:20])
		return k
	}
	seen := map[hkey]struct{}{}
	var res BFSResult
	res.Complete = true
	var frontier []BFSState
	for _, s := range init {
		k := hash(s)
		if _, ok := seen[k]; ok {
			continue
		}
		seen[k] = struct{}{}
		frontier = append(frontier, s)
	}
	workers := runtime.NumCPU()
	var seenMu sync.Mutex
	for depth := 0; depth <= maxDepth && len(frontier) > 0; depth++ {
		res.PerLevel = append(res.PerLevel, len(frontier))
		res.States += len(frontier)
		last := depth == maxDepth
		lastExpand := depth == maxDepth-1 // successors are visited inline and not retained
		var next []BFSState
		var nextMu sync.Mutex
		var trans, inlineStates int
		var wg sync.WaitGroup
		idx := 0
		var idxMu sync.Mutex
		stopped := false
		for w := 0; w < workers; w++ {
			wg.Add(1)
			go func() {
				defer wg.Done()
				for {
					idxMu.Lock()
					if stopped || idx >= len(frontier) {
						idxMu.Unlock()
						return
					}
					if idx%32 == 0 && stop != nil && stop() {
						stopped = true
						idxMu.Unlock()
						return
					}
					s := frontier[idx]
					idx++
					idxMu.Unlock()
					visit(s, depth)
					if last {
						continue
					}
					ss := succ(s)
					var keep []BFSState
					seenMu.Lock()
					for _, n := range ss {
						k := hash(n)
						if _, ok := seen[k]; ok {
							continue
						}
						seen[k] = struct{}{}
						keep = append(keep, n)
					}
					seenMu.Unlock()
					if lastExpand {
						for _, n := range keep {
							visit(n, depth+1)
						}
						nextMu.Lock()
						trans += len(ss)
						inlineStates += len(keep)
						nextMu.Unlock()
						continue
					}
					nextMu.Lock()
					trans += len(ss)
					next = append(next, keep...)
					nextMu.Unlock()
				}
			}()
		}
		wg.Wait()
		res.Transitions += trans
		if stopped {
			res.Complete = false
			res.States += inlineStates
			return res
		}
		res.DepthCompleted = depth
		if lastExpand {
			res.States += inlineStates
			res.PerLevel = append(res.PerLevel, inlineStates)
			res.DepthCompleted = depth + 1
			return res
		}
		frontier = next
	}
	return res
}
