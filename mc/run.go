package mc

import (
	"bufio"
	"crypto/sha256"
	"encoding/hex"
	"encoding/json"
	"fmt"
	"os"
	"path/filepath"
	"runtime"
	"sort"
	"strings"
	"sync"
	"sync/atomic"
	"time"
)

// Root is the verification directory; everything a check writes stays under it.
var Root = "/verif"

// Home is where the committed known_findings.txt lives (never written at run time).
var Home = "/verif"

// ReplayFunc re-executes one serialised case on fresh instances, with no explorer, and
// returns the finding keys it violates (empty: the case holds).
type ReplayFunc func(raw json.RawMessage) (keys []string, detail string)

// Violation is one failing case reduced to a finding key.
type Violation struct {
	Key  string          `json:"key"`
	What string          `json:"what"`
	Case json.RawMessage `json:"case"`
}

// Run collects what one check covered and what it found.
type Run struct {
	Prop  string
	Tier  string
	Seed  int64
	Level string
	Rule  string

	start    time.Time
	deadline time.Time

	evals       atomic.Int64
	states      atomic.Int64
	transitions atomic.Int64
	traces      atomic.Int64

	mu         sync.Mutex
	hist       map[string]int64
	distinct   map[[16]byte]struct{}
	samples    []interface{}
	sampleSeen int64
	viol       map[string][]Violation
	violCount  int64
	extra      map[string]interface{}
	caps       []string
	assume     []string
	exhaustive bool
	replay     ReplayFunc
	fails      []string
}

const maxSamples = 6

// NewRun starts the bookkeeping for one check. budget is the internal deadline: reaching it
// ends the exploration with exhaustive:false, never with an alarm.
func NewRun(prop, tier string, budget time.Duration, replay ReplayFunc) *Run {
	seed := int64(1)
	if s := os.Getenv("VERIF_SEED"); s != "" {
		fmt.Sscan(s, &seed)
	}
	r := &Run{Prop: prop, Tier: tier, Seed: seed, Level: "model_checking",
		start: time.Now(), hist: map[string]int64{}, distinct: map[[16]byte]struct{}{},
		viol: map[string][]Violation{}, extra: map[string]interface{}{}, exhaustive: true, replay: replay}
	r.deadline = r.start.Add(budget)
	return r
}

// Thorough reports whether the thorough tier was requested.
func (r *Run) Thorough() bool { return r.Tier == "thorough" }

// Expired is the stop function handed to the engines.
func (r *Run) Expired() bool { return time.Now().After(r.deadline) }

// Cap records that a bound other than the stated one cut the exploration short.
func (r *Run) Cap(what string) {
	r.mu.Lock()
	r.caps = append(r.caps, what)
	r.exhaustive = false
	r.mu.Unlock()
}

// Fail records a harness-level problem (e.g. an execution that could not be replayed
// deterministically). If the run finds no violation, it ends with exit code 2 instead of 0:
// a run that could not explore what it claims must not pass silently.
func (r *Run) Fail(msg string) {
	r.mu.Lock()
	r.fails = append(r.fails, msg)
	r.exhaustive = false
	r.mu.Unlock()
}

func (r *Run) Assume(a ...string) { r.assume = append(r.assume, a...) }

// Eval counts one execution of a real entry point.
func (r *Run) Eval(n int)       { r.evals.Add(int64(n)) }
func (r *Run) State(n int)      { r.states.Add(int64(n)) }
func (r *Run) Transition(n int) { r.transitions.Add(int64(n)) }
func (r *Run) Trace(n int)      { r.traces.Add(int64(n)) }

// Bucket adds one to an outcome class of the histogram.
func (r *Run) Bucket(name string) {
	r.mu.Lock()
	r.hist[name]++
	r.mu.Unlock()
}

// Nontrivial records a case that is non-trivial by the check's stated rule; distinctness is
// decided on the key.
func (r *Run) Nontrivial(key string) {
	h := sha256.Sum256([]byte(key))
	var k [16]byte
	copy(k[:], h[:16])
	r.mu.Lock()
	r.distinct[k] = struct{}{}
	r.mu.Unlock()
}

// Sample keeps a few of the cases explored, written out in the evidence. Which ones are
// kept depends on VERIF_SEED; the enumeration itself does not.
func (r *Run) Sample(v interface{}) {
	r.mu.Lock()
	defer r.mu.Unlock()
	r.sampleSeen++
	if len(r.samples) < maxSamples {
		r.samples = append(r.samples, v)
		return
	}
	// deterministic reservoir keyed by seed
	x := uint64(r.sampleSeen)*0x9E3779B97F4A7C15 + uint64(r.Seed)*0xBF58476D1CE4E5B9
	x ^= x >> 31
	if x%uint64(r.sampleSeen) < maxSamples && x%97 == 0 {
		r.samples[x%maxSamples] = v
	}
}

// Set stores an extra coverage key.
func (r *Run) Set(k string, v interface{}) {
	r.mu.Lock()
	r.extra[k] = v
	r.mu.Unlock()
}

// Violation records a failing case. c is the replayable case (JSON-serialisable).
func (r *Run) Violation(key, what string, c interface{}) {
	raw, err := json.Marshal(c)
	if err != nil {
		panic(err)
	}
	r.mu.Lock()
	r.violCount++
	// keep the first two cases of a key and the most recent one: a finding that depends on
	// process-global state may only reproduce from some of them
	if len(r.viol[key]) < 3 {
		r.viol[key] = append(r.viol[key], Violation{Key: key, What: what, Case: raw})
	} else {
		r.viol[key][2] = Violation{Key: key, What: what, Case: raw}
	}
	r.mu.Unlock()
}

// Par runs fn(i) for i in [0,n) on all cores; it stops handing out work when the deadline
// passes (and records the cap).
func (r *Run) Par(n int, fn func(i int)) {
	workers := runtime.NumCPU()
	if w := os.Getenv("VERIF_WORKERS"); w != "" {
		fmt.Sscan(w, &workers)
	}
	if workers > n {
		workers = n
	}
	if workers < 1 {
		workers = 1
	}
	var next atomic.Int64
	var wg sync.WaitGroup
	var capped atomic.Bool
	for w := 0; w < workers; w++ {
		wg.Add(1)
		go func() {
			defer wg.Done()
			for {
				i := int(next.Add(1) - 1)
				if i >= n {
					return
				}
				if i%64 == 0 && r.Expired() {
					capped.Store(true)
					return
				}
				fn(i)
			}
		}()
	}
	wg.Wait()
	if capped.Load() {
		done := int(next.Load())
		if done > n {
			done = n
		}
		r.Cap(fmt.Sprintf("internal deadline reached after about %d of %d cases", done, n))
	}
}

// knownFinding is one line of known_findings.txt.
type knownFinding struct {
	status, prop, key, rest string
}

// loadKnown reads /verif/known_findings.txt. Lines:
//
//	known: property=C05 key=<key> <what fails>
//	fixed: property=C05 <commit> key=<key> <what failed>
//
// Only "known:" lines suppress anything. The file is never written at run time.
func loadKnown() []knownFinding {
	f, err := os.Open(filepath.Join(Home, "known_findings.txt"))
	if err != nil {
		return nil
	}
	defer f.Close()
	var out []knownFinding
	sc := bufio.NewScanner(f)
	for sc.Scan() {
		line := strings.TrimSpace(sc.Text())
		if line == "" || strings.HasPrefix(line, "#") {
			continue
		}
		var k knownFinding
		switch {
		case strings.HasPrefix(line, "known:"):
			k.status = "known"
			line = strings.TrimSpace(strings.TrimPrefix(line, "known:"))
		case strings.HasPrefix(line, "fixed:"):
			k.status = "fixed"
			line = strings.TrimSpace(strings.TrimPrefix(line, "fixed:"))
		default:
			continue
		}
		for _, tok := range strings.Fields(line) {
			if strings.HasPrefix(tok, "property=") {
				k.prop = strings.TrimPrefix(tok, "property=")
			} else if strings.HasPrefix(tok, "key=") {
				k.key = strings.TrimPrefix(tok, "key=")
			}
		}
		k.rest = line
		out = append(out, k)
	}
	return out
}

type evidence struct {
	PropertyID  string                 `json:"property_id"`
	Tier        string                 `json:"tier"`
	Seed        int64                  `json:"seed"`
	Level       string                 `json:"level"`
	Coverage    map[string]interface{} `json:"coverage"`
	Assumptions []string               `json:"assumptions"`
	WallS       float64                `json:"wall_s"`
	Violations  int                    `json:"violations"`
}

// Finish verifies every recorded violation by replaying it twice on fresh instances, writes
// replay files and the evidence file, prints the VIOLATION / KNOWN-FINDING lines and returns
// the process exit code (0 held, 1 violation, 2 harness error).
func (r *Run) Finish() int {
	known := map[string]knownFinding{}
	for _, k := range loadKnown() {
		if k.status == "known" && k.prop == r.Prop {
			known[k.key] = k
		}
	}
	keys := make([]string, 0, len(r.viol))
	for k := range r.viol {
		keys = append(keys, k)
	}
	sort.Strings(keys)

	exit := 0
	var lines []string
	reported := 0
	knownSeen := map[string]bool{}
	for _, key := range keys {
		vs := r.viol[key]
		v := vs[0]
		// replay twice on fresh instances: both runs must reproduce this key. Each stored case of
		// the key is tried in turn.
		if r.replay != nil {
			reproduced := false
			var detail string
			for _, cand := range vs {
				ok := true
				for i := 0; i < 2; i++ {
					ks, d := r.replay(cand.Case)
					detail = d
					found := false
					for _, k := range ks {
						if k == key {
							found = true
						}
					}
					if !found {
						ok = false
					}
				}
				if ok {
					v = cand
					reproduced = true
					break
				}
			}
			if !reproduced {
				lines = append(lines, fmt.Sprintf("HARNESS-ERROR property=%s key=%s did not reproduce on replay (%s)", r.Prop, key, detail))
				if exit == 0 {
					exit = 2
				}
				continue
			}
		}
		if k, isKnown := known[key]; isKnown {
			knownSeen[key] = true
			lines = append(lines, fmt.Sprintf("KNOWN-FINDING: property=%s %s", r.Prop, strings.TrimSpace(strings.Replace(k.rest, "property="+r.Prop, "", 1))))
			continue
		}
		path := r.writeReplay(v)
		lines = append(lines, fmt.Sprintf("VIOLATION property=%s replay=%s", r.Prop, path))
		lines = append(lines, fmt.Sprintf("  key=%s  %s", key, v.What))
		reported++
		exit = 1
	}
	// a known finding that no longer reproduces is reported (informational), so that a
	// stale entry is visible; it does not fail the run.
	for key := range known {
		if !knownSeen[key] {
			lines = append(lines, fmt.Sprintf("NOTE property=%s known finding %s did not occur in this run", r.Prop, key))
		}
	}

	r.mu.Lock()
	hist := map[string]int64{}
	for k, v := range r.hist {
		hist[k] = v
	}
	cov := map[string]interface{}{}
	for k, v := range r.extra {
		cov[k] = v
	}
	evals := r.evals.Load()
	cov["evaluations"] = evals
	cov["distinct_nontrivial"] = len(r.distinct)
	cov["rule"] = r.Rule
	samples := r.samples
	if len(samples) == 0 {
		samples = []interface{}{"(no case explored)"}
	}
	cov["samples"] = samples
	st, tr, tc := r.states.Load(), r.transitions.Load(), r.traces.Load()
	if st == 0 {
		st = int64(len(r.distinct))
	}
	if tr == 0 {
		tr = evals
	}
	if tc == 0 {
		tc = tr
	}
	cov["states"] = st
	cov["transitions"] = tr
	cov["traces_validated_against_impl"] = tc
	cov["exhaustive"] = r.exhaustive
	cov["caps_hit"] = r.caps
	cov["outcome_histogram"] = hist
	cov["violating_cases"] = r.violCount
	cov["finding_keys"] = keys
	r.mu.Unlock()

	ev := evidence{PropertyID: r.Prop, Tier: r.Tier, Seed: r.Seed, Level: r.Level, Coverage: cov,
		Assumptions: r.assume, WallS: time.Since(r.start).Seconds(), Violations: reported}
	if ev.Assumptions == nil {
		ev.Assumptions = []string{}
	}
	b, _ := json.MarshalIndent(ev, "", " ")
	os.MkdirAll(filepath.Join(Root, "evidence"), 0755)
	if err := os.WriteFile(filepath.Join(Root, "evidence", r.Prop+".json"), append(b, '\n'), 0644); err != nil {
		fmt.Println("HARNESS-ERROR cannot write evidence:", err)
		exit = 2
	}

	for _, f := range r.fails {
		lines = append(lines, "HARNESS-ERROR property="+r.Prop+" "+f)
		if exit == 0 {
			exit = 2
		}
	}
	// vacuity guard: a run whose histogram has fewer than two outcome classes collided nothing
	if len(hist) < 2 && exit == 0 {
		lines = append(lines, fmt.Sprintf("HARNESS-ERROR property=%s vacuous exploration: %d outcome classes", r.Prop, len(hist)))
		exit = 2
	}
	for _, l := range lines {
		fmt.Println(l)
	}
	fmt.Printf("%s %s: evaluations=%d distinct_nontrivial=%d states=%d transitions=%d exhaustive=%v violations=%d known=%d wall=%.1fs\n",
		r.Prop, r.Tier, evals, len(r.distinct), st, tr, r.exhaustive, reported, len(knownSeen), time.Since(r.start).Seconds())
	return exit
}

func (r *Run) writeReplay(v Violation) string {
	h := sha256.Sum256(append([]byte(v.Key+"\x00"), v.Case...))
	dir := filepath.Join(Root, "replays", r.Prop)
	os.MkdirAll(dir, 0755)
	path := filepath.Join(dir, hex.EncodeToString(h[:8])+".json")
	doc := map[string]interface{}{"property": r.Prop, "key": v.Key, "what": v.What, "case": v.Case}
	b, _ := json.MarshalIndent(doc, "", " ")
	os.WriteFile(path, append(b, '\n'), 0644)
	return path
}

// ReadReplay loads a replay file written by writeReplay.
func ReadReplay(path string) (prop, key string, c json.RawMessage, err error) {
	b, err := os.ReadFile(path)
	if err != nil {
		return "", "", nil, err
	}
	var doc struct {
		Property string          `json:"property"`
		Key      string          `json:"key"`
		Case     json.RawMessage `json:"case"`
	}
	if err := json.Unmarshal(b, &doc); err != nil {
		return "", "", nil, err
	}
	return doc.Property, doc.Key, doc.Case, nil
}
