#!/bin/bash
# run.sh <Cxx> <quick|thorough>   run one property check against /repo's current working tree
# run.sh replay <file>            re-execute one recorded violation without the explorer
# exit 0 held / 1 violation (prints "VIOLATION property=<id> replay=<path>") / 2 harness error
cd "$(dirname "$0")" || exit 2
export GOFLAGS=-mod=mod GOPROXY=off GOSUMDB=off GOTOOLCHAIN=local
export VERIF_TIER="${2:-quick}"
mkdir -p bin evidence replays
# VERIF_REPO (optional): check a copy of the repository at another path instead of /repo
# (used for background runs against a snapshot); the module replace is redirected through an
# alternate go.mod and nothing in this directory's go.mod changes.
if [ -n "$VERIF_REPO" ] && [ "$VERIF_REPO" != "/repo" ]; then
  sed "s#=> /repo#=> $VERIF_REPO#" go.mod > bin/alt.mod; cp go.sum bin/alt.sum
  export GOFLAGS="-mod=mod -modfile=$PWD/bin/alt.mod"
fi
if ! go build -o bin/vcheck ./cmd/vcheck 2>bin/build.log; then
  echo "HARNESS-ERROR: build against /repo failed"; cat bin/build.log; exit 2
fi
case "$1" in
  C17|C18) exec ./sched.sh "$@" ;;
  replay) if grep -q '"property": "C1[78]"' "$2" 2>/dev/null; then exec ./sched.sh "$@"; fi ;;
esac
exec ./bin/vcheck "$@"
