#!/bin/bash
# run.sh <Cxx> <quick|thorough>   run one property check against /repo's current working tree
# run.sh replay <file>            re-execute one recorded violation without the explorer
# exit 0 held / 1 violation (prints "VIOLATION property=<id> replay=<path>") / 2 harness error
cd "$(dirname "$0")" || exit 2
export GOFLAGS=-mod=mod GOPROXY=off GOSUMDB=off GOTOOLCHAIN=local
export VERIF_TIER="${2:-quick}"
mkdir -p bin evidence replays
# VERIF_REPO (optional): check a copy of the repository at another path instead of /repo
# (used for background runs against a snapshot); the module replace is redirected through an
# alternate go.mod and nothing in this directory's go.mod changes.
BIN=bin/vcheck
if [ -n "$VERIF_REPO" ] && [ "$VERIF_REPO" != "/repo" ]; then
  # private module file and binary, so that concurrent runs against other copies cannot mix
  sed "s#=> /repo#=> $VERIF_REPO#" go.mod > bin/alt.$$.mod; cp go.sum bin/alt.$$.sum
  export GOFLAGS="-mod=mod -modfile=$PWD/bin/alt.$$.mod"
  BIN=bin/vcheck.alt.$$
  trap 'rm -f bin/alt.$$.mod bin/alt.$$.sum bin/vcheck.alt.$$ bin/build.$$.log' EXIT
fi
if ! go build -o $BIN ./cmd/vcheck 2>bin/build.$$.log; then
  echo "HARNESS-ERROR: build against the repository failed"; cat bin/build.$$.log; rm -f bin/build.$$.log; exit 2
fi
rm -f bin/build.$$.log
case "$1" in
  C17|C18) ./sched.sh "$@"; exit $? ;;
  replay) if grep -q '"property": "C1[78]"' "$2" 2>/dev/null; then ./sched.sh "$@"; exit $?; fi ;;
esac
./$BIN "$@"
exit $?
