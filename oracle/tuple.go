// Package oracle holds reference-side representations: canonical field tuples of assertions
// and responses computed (a) from what the library returned and (b) by an independent walk
// of an etree element, so that "field-for-field equal to something the IdP signed" can be
// decided without trusting the library's decoding.
package oracle

import (
	"encoding/json"
	"strings"
	"time"

	"github.com/beevik/etree"
	"github.com/russellhaering/gosaml2/types"
)

const (
	NSP = "urn:oasis:names:tc:SAML:2.0:protocol"
	NSA = "urn:oasis:names:tc:SAML:2.0:assertion"
)

type AttrT struct {
	Name, Friendly, Format string
	Values                 []string
}

// AssertionT is the canonical field tuple of an assertion: everything the caller can read,
// except the SignatureValidated flag and the raw signature blob.
type AssertionT struct {
	ID, Version, IssueInstant string
	HasIssuer                 bool
	Issuer                    string
	HasSubject                bool
	HasNameID                 bool
	NameID                    string
	HasSC                     bool
	Method                    string
	HasSCD                    bool
	Recipient, SCDNotOnOrAfter, SCDInResponseTo string
	HasConditions             bool
	NotBefore, NotOnOrAfter   string
	Audiences                 [][]string
	OneTimeUse                bool
	HasProxy                  bool
	ProxyCount                string
	ProxyAud                  []string
	HasAttrs                  bool
	Attrs                     []AttrT
	HasAuthn                  bool
	SessionIndex, AuthnInstant, SessionNotOnOrAfter string
	HasClassRef               bool
	ClassRef                  string
}

func (a AssertionT) Key() string {
	b, _ := json.Marshal(a)
	return string(b)
}

// ResponseT is the tuple of a Response (root fields + assertion tuples in order).
type ResponseT struct {
	ID, InResponseTo, Destination, Version, IssueInstant string
	HasIssuer                                            bool
	Issuer                                               string
	HasStatus, HasStatusCode                             bool
	StatusCode                                           string
	Assertions                                           []string // AssertionT keys, in order
}

func (r ResponseT) Key() string {
	b, _ := json.Marshal(r)
	return string(b)
}

func normTime(t time.Time) string {
	if t.IsZero() {
		return ""
	}
	return t.UTC().Format(time.RFC3339Nano)
}

func normTimeStr(s string) string {
	if s == "" {
		return ""
	}
	t, err := time.Parse(time.RFC3339, s)
	if err != nil {
		return "unparsable:" + s
	}
	return normTime(t)
}

func normTimePtr(t *time.Time) string {
	if t == nil {
		return ""
	}
	return normTime(*t)
}

// FromAssertion builds the tuple from what the library returned.
func FromAssertion(a *types.Assertion) AssertionT {
	t := AssertionT{ID: a.ID, Version: a.Version, IssueInstant: normTime(a.IssueInstant)}
	if a.Issuer != nil {
		t.HasIssuer, t.Issuer = true, a.Issuer.Value
	}
	if s := a.Subject; s != nil {
		t.HasSubject = true
		if s.NameID != nil {
			t.HasNameID, t.NameID = true, s.NameID.Value
		}
		if sc := s.SubjectConfirmation; sc != nil {
			t.HasSC, t.Method = true, sc.Method
			if d := sc.SubjectConfirmationData; d != nil {
				t.HasSCD = true
				t.Recipient, t.SCDNotOnOrAfter, t.SCDInResponseTo = d.Recipient, d.NotOnOrAfter, d.InResponseTo
			}
		}
	}
	if c := a.Conditions; c != nil {
		t.HasConditions = true
		t.NotBefore, t.NotOnOrAfter = c.NotBefore, c.NotOnOrAfter
		for _, ar := range c.AudienceRestrictions {
			l := []string{}
			for _, x := range ar.Audiences {
				l = append(l, x.Value)
			}
			t.Audiences = append(t.Audiences, l)
		}
		t.OneTimeUse = c.OneTimeUse != nil
		if p := c.ProxyRestriction; p != nil {
			t.HasProxy = true
			t.ProxyCount = itoa(p.Count)
			for _, x := range p.Audience {
				t.ProxyAud = append(t.ProxyAud, x.Value)
			}
		}
	}
	if as := a.AttributeStatement; as != nil {
		t.HasAttrs = true
		for _, at := range as.Attributes {
			x := AttrT{Name: at.Name, Friendly: at.FriendlyName, Format: at.NameFormat}
			for _, v := range at.Values {
				x.Values = append(x.Values, v.Value)
			}
			t.Attrs = append(t.Attrs, x)
		}
	}
	if au := a.AuthnStatement; au != nil {
		t.HasAuthn = true
		t.SessionIndex = au.SessionIndex
		t.AuthnInstant = normTimePtr(au.AuthnInstant)
		t.SessionNotOnOrAfter = normTimePtr(au.SessionNotOnOrAfter)
		if au.AuthnContext != nil && au.AuthnContext.AuthnContextClassRef != nil {
			t.HasClassRef, t.ClassRef = true, au.AuthnContext.AuthnContextClassRef.Value
		}
	}
	return t
}

func itoa(i int) string {
	b, _ := json.Marshal(i)
	return string(b)
}

// FromResponse builds the tuple from what the library returned.
func FromResponse(r *types.Response) ResponseT {
	t := ResponseT{ID: r.ID, InResponseTo: r.InResponseTo, Destination: r.Destination, Version: r.Version, IssueInstant: normTime(r.IssueInstant)}
	if r.Issuer != nil {
		t.HasIssuer, t.Issuer = true, r.Issuer.Value
	}
	if r.Status != nil {
		t.HasStatus = true
		if r.Status.StatusCode != nil {
			t.HasStatusCode, t.StatusCode = true, r.Status.StatusCode.Value
		}
	}
	for i := range r.Assertions {
		t.Assertions = append(t.Assertions, FromAssertion(&r.Assertions[i]).Key())
	}
	return t
}

// ---- independent walk of an etree element ----

// NSOf resolves the namespace of el by walking up its ancestors' declarations.
func NSOf(el *etree.Element) string {
	prefix := el.Space
	for e := el; e != nil; e = e.Parent() {
		for _, a := range e.Attr {
			if prefix == "" && a.Space == "" && a.Key == "xmlns" {
				return a.Value
			}
			if prefix != "" && a.Space == "xmlns" && a.Key == prefix {
				return a.Value
			}
		}
	}
	return ""
}

// Is reports whether el is the element {ns}tag.
func Is(el *etree.Element, ns, tag string) bool { return el.Tag == tag && NSOf(el) == ns }

// Children returns the direct child elements {ns}tag.
func Children(el *etree.Element, ns, tag string) []*etree.Element {
	var out []*etree.Element
	for _, c := range el.ChildElements() {
		if Is(c, ns, tag) {
			out = append(out, c)
		}
	}
	return out
}

// lastChild mirrors how a struct decoder treats a repeated singleton: later wins.
func lastChild(el *etree.Element, ns, tag string) *etree.Element {
	cs := Children(el, ns, tag)
	if len(cs) == 0 {
		return nil
	}
	return cs[len(cs)-1]
}

// TextOf concatenates all character data directly under el (comments and other nodes
// skipped): the text a parser delivers after comment removal.
func TextOf(el *etree.Element) string {
	var sb strings.Builder
	for _, c := range el.Child {
		if cd, ok := c.(*etree.CharData); ok {
			sb.WriteString(cd.Data)
		}
	}
	return sb.String()
}

func attr(el *etree.Element, key string) string {
	for _, a := range el.Attr {
		if a.Space == "" && a.Key == key {
			return a.Value
		}
	}
	return ""
}

// AssertionFromElement computes the tuple of an Assertion element by walking the tree.
// Repeated singleton children: the last one is taken (the validator's struct decoder merges
// or overwrites; states with such repetition inside an assertion are outside the alphabets
// that compare tuples).
func AssertionFromElement(a *etree.Element) AssertionT {
	t := AssertionT{ID: attr(a, "ID"), Version: attr(a, "Version"), IssueInstant: normTimeStr(attr(a, "IssueInstant"))}
	if e := lastChild(a, NSA, "Issuer"); e != nil {
		t.HasIssuer, t.Issuer = true, TextOf(e)
	}
	if s := lastChild(a, NSA, "Subject"); s != nil {
		t.HasSubject = true
		if n := lastChild(s, NSA, "NameID"); n != nil {
			t.HasNameID, t.NameID = true, TextOf(n)
		}
		if sc := lastChild(s, NSA, "SubjectConfirmation"); sc != nil {
			t.HasSC, t.Method = true, attr(sc, "Method")
			if d := lastChild(sc, NSA, "SubjectConfirmationData"); d != nil {
				t.HasSCD = true
				t.Recipient, t.SCDNotOnOrAfter, t.SCDInResponseTo = attr(d, "Recipient"), attr(d, "NotOnOrAfter"), attr(d, "InResponseTo")
			}
		}
	}
	if c := lastChild(a, NSA, "Conditions"); c != nil {
		t.HasConditions = true
		t.NotBefore, t.NotOnOrAfter = attr(c, "NotBefore"), attr(c, "NotOnOrAfter")
		for _, ar := range Children(c, NSA, "AudienceRestriction") {
			l := []string{}
			for _, x := range Children(ar, NSA, "Audience") {
				l = append(l, TextOf(x))
			}
			t.Audiences = append(t.Audiences, l)
		}
		t.OneTimeUse = lastChild(c, NSA, "OneTimeUse") != nil
		if p := lastChild(c, NSA, "ProxyRestriction"); p != nil {
			t.HasProxy = true
			t.ProxyCount = attr(p, "Count")
			if t.ProxyCount == "" {
				t.ProxyCount = "0"
			}
			for _, x := range Children(p, NSA, "Audience") {
				t.ProxyAud = append(t.ProxyAud, TextOf(x))
			}
		}
	}
	for _, as := range Children(a, NSA, "AttributeStatement") {
		t.HasAttrs = true
		for _, at := range Children(as, NSA, "Attribute") {
			x := AttrT{Name: attr(at, "Name"), Friendly: attr(at, "FriendlyName"), Format: attr(at, "NameFormat")}
			for _, v := range Children(at, NSA, "AttributeValue") {
				x.Values = append(x.Values, TextOf(v))
			}
			t.Attrs = append(t.Attrs, x)
		}
	}
	if au := lastChild(a, NSA, "AuthnStatement"); au != nil {
		t.HasAuthn = true
		t.SessionIndex = attr(au, "SessionIndex")
		t.AuthnInstant = normTimeStr(attr(au, "AuthnInstant"))
		t.SessionNotOnOrAfter = normTimeStr(attr(au, "SessionNotOnOrAfter"))
		if ac := lastChild(au, NSA, "AuthnContext"); ac != nil {
			if cr := lastChild(ac, NSA, "AuthnContextClassRef"); cr != nil {
				t.HasClassRef, t.ClassRef = true, TextOf(cr)
			}
		}
	}
	return t
}

// ResponseFromElement computes the tuple of a Response element; assertion tuples are those
// of its direct-child Assertion elements.
func ResponseFromElement(r *etree.Element) ResponseT {
	t := ResponseT{ID: attr(r, "ID"), InResponseTo: attr(r, "InResponseTo"), Destination: attr(r, "Destination"), Version: attr(r, "Version"), IssueInstant: normTimeStr(attr(r, "IssueInstant"))}
	if e := lastChild(r, NSA, "Issuer"); e != nil {
		t.HasIssuer, t.Issuer = true, TextOf(e)
	}
	if s := lastChild(r, NSP, "Status"); s != nil {
		t.HasStatus = true
		if c := lastChild(s, NSP, "StatusCode"); c != nil {
			t.HasStatusCode, t.StatusCode = true, attr(c, "Value")
		}
	}
	for _, a := range Children(r, NSA, "Assertion") {
		t.Assertions = append(t.Assertions, AssertionFromElement(a).Key())
	}
	return t
}
