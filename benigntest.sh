#!/bin/bash
# benigntest.sh [name ...]  For every benign/<name>.patch (a refactor of the library under which every
# property still holds): apply it to a scratch worktree of /repo's HEAD (never to /repo itself),
# check that the repository's pinned tests still pass there, and require each check named on the
# patch's first line ("# checks: Cxx ...") to exit 0 without a VIOLATION line when run against that
# copy through VERIF_REPO. This is the other half of selftest.sh: no alarm where the property holds.
cd "$(dirname "$0")" || exit 2
export GOFLAGS=-mod=mod GOPROXY=off GOSUMDB=off GOTOOLCHAIN=local
mkdir -p /tmp/scratch
WT=/tmp/scratch/benign-wt-$$
OUT=/tmp/scratch/benign-out-$$
git -C /repo worktree add -q --detach $WT HEAD || exit 2
trap 'git -C /repo worktree remove --force $WT 2>/dev/null; rm -rf $OUT' EXIT
names="$@"; [ -z "$names" ] && names=$(ls benign | sed -n 's/\.patch$//p')
rc=0
for n in $names; do
  m=benign/$n.patch
  checks=$(sed -n '1s/^# checks: //p' $m)
  if ! git -C $WT apply "$PWD/$m"; then echo "BENIGN $n: PATCH-DOES-NOT-APPLY"; rc=1; continue; fi
  if (cd $WT && go build ./... 2>/dev/null) && python3 tools/baseline.py $WT >/dev/null 2>&1; then base=pass; else base=FAIL; rc=1; fi
  for c in $checks; do
    out=$(VERIF_REPO=$WT VERIF_ROOT=$OUT ./run.sh $c quick 2>&1); code=$?
    if [ $code -eq 0 ] && ! echo "$out" | grep -q "^VIOLATION"; then res=SILENT; else res="ALARM(exit=$code)"; rc=1; fi
    echo "BENIGN $n: baseline=$base check=$c $res $(echo "$out" | grep -m1 '  key=' | cut -c1-220)"
  done
  git -C $WT checkout -q -- . ; git -C $WT clean -fdq
done
exit $rc
