#!/bin/bash
# sched.sh prebuild | <C17|C18> <quick|thorough> | replay <file>
# Builds the scheduler variant of vcheck: the library is rewritten from /repo's CURRENT files by
# cmd/instr into a scratch directory (sync -> shim, yields before shared-state accesses) and
# compiled through `go build -overlay`; /repo is not touched and the scratch directory is
# removed when this script ends.
cd "$(dirname "$0")" || exit 2
export GOFLAGS=-mod=mod GOPROXY=off GOSUMDB=off GOTOOLCHAIN=local
mkdir -p bin evidence replays
REPO="${VERIF_REPO:-/repo}"
SFX=""
if [ "$REPO" != "/repo" ]; then
  sed "s#=> /repo#=> $REPO#" go.mod > bin/alts.$$.mod; cp go.sum bin/alts.$$.sum
  export GOFLAGS="-mod=mod -modfile=$PWD/bin/alts.$$.mod"
  SFX=".alt.$$"
fi
TMP=$(mktemp -d /tmp/verif-sched.XXXXXX) || exit 2
trap 'rm -rf "$TMP"; [ -n "$SFX" ] && rm -f bin/alts.$$.mod bin/alts.$$.sum bin/vcheck-sched$SFX bin/vcheck-sched-race$SFX' EXIT
go build -o bin/instr ./cmd/instr || { echo "HARNESS-ERROR: cannot build the instrumenter"; exit 2; }
if ! ./bin/instr -repo "$REPO" -out "$TMP" > "$TMP/overlay.json" 2> "$TMP/instr.log"; then
  echo "HARNESS-ERROR: instrumentation of /repo failed"; cat "$TMP/instr.log"; exit 2
fi
if ! go build -tags sched -overlay "$TMP/overlay.json" -o bin/vcheck-sched$SFX ./cmd/vcheck 2> "$TMP/build.log"; then
  echo "HARNESS-ERROR: overlay build failed"; cat "$TMP/build.log"; exit 2
fi
if ! go build -race -tags sched -overlay "$TMP/overlay.json" -o bin/vcheck-sched-race$SFX ./cmd/vcheck 2> "$TMP/build-race.log"; then
  echo "HARNESS-ERROR: overlay -race build failed"; cat "$TMP/build-race.log"; exit 2
fi
[ "$1" = "prebuild" ] && exit 0
VERIF_REPO="$REPO" VERIF_INSTR_REPORT="$TMP/instr-report.json" VERIF_RACE_BIN="$PWD/bin/vcheck-sched-race$SFX" ./bin/vcheck-sched$SFX "$@"
