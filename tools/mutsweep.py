#!/usr/bin/env python3
"""mutsweep.py [-o results.txt] [-only file.go[,file.go...]] [-max N]
Systematic operator-mutation sweep of the library (a complement to the hand-written mutants and the
seeded changes): every occurrence of a comparison / boolean operator or boolean literal in the
non-test sources is flipped, one at a time, in a scratch worktree of /repo's HEAD (never in /repo).
For each mutant that still compiles the quick checks mapped to the file are run (fastest first)
through VERIF_REPO until one reports a VIOLATION; if none does, the repository's own pinned tests
are run. Output, one line per mutant:
   KILLED-BY-CHECK <Cxx> | KILLED-BY-TESTS | SURVIVED | STILLBORN   file:line  old -> new   source line
SURVIVED lines are the interesting ones: either an equivalent mutant or a gap in the checks."""
import os, re, subprocess, sys, time

HERE = os.path.dirname(os.path.dirname(os.path.abspath(__file__)))
ENV = dict(os.environ, GOFLAGS="-mod=mod", GOPROXY="off", GOSUMDB="off", GOTOOLCHAIN="local")

# checks mapped to each file, fastest first
CHECKS = {
    "validate.go": ["C10", "C06", "C05", "C03"],
    "decode_response.go": ["C10", "C20", "C02", "C08", "C11", "C03", "C12", "C09", "C07", "C01", "C04"],
    "decode_logout_request.go": ["C10", "C02", "C12", "C09", "C04"],
    "retrieve_assertion.go": ["C08", "C06", "C05", "C03", "C04"],
    "attribute.go": ["C08"],
    "build_request.go": ["C16", "C18", "C15", "C13", "C14", "C17"],
    "build_logout_response.go": ["C16", "C15", "C13"],
    "saml.go": ["C19", "C13", "C14", "C11", "C07", "C17"],
    "logout_request.go": ["C10"],
    "types/encrypted_assertion.go": ["C11", "C09", "C07"],
    "types/encrypted_key.go": ["C11", "C09", "C07"],
    "uuid/uuid.go": ["C18"],
    "attr_order.go": ["C20", "C10", "C08"],
}

SWAPS = [("==", "!="), ("!=", "=="), ("&&", "||"), ("||", "&&"), ("<=", "<"), (">=", ">"),
         (" < ", " <= "), (" > ", " >= "), ("true", "false"), ("false", "true"), ("if !", "if "), ("+1", "+0"), ("+ 1", "+ 0")]


def code_spans(line):
    """yield (start, end) spans of the line that are code (outside string/rune literals and comments)"""
    i, n, start = 0, len(line), 0
    while i < n:
        c = line[i]
        if line.startswith("//", i):
            yield (start, i)
            return
        if c in "\"`'":
            yield (start, i)
            q = c
            i += 1
            while i < n and line[i] != q:
                if line[i] == "\\" and q != "`":
                    i += 1
                i += 1
            i += 1
            start = i
            continue
        i += 1
    yield (start, n)


def mutants_of(path):
    out = []
    lines = open(path).read().split("\n")
    in_block = False
    in_raw = False
    for ln, line in enumerate(lines):
        s = line.strip()
        if in_block:
            if "*/" in s:
                in_block = False
            continue
        if s.startswith("/*"):
            in_block = "*/" not in s
            continue
        if line.count("`") % 2 == 1:
            in_raw = not in_raw
            continue
        if in_raw or s.startswith("//") or s.startswith("import") or s.startswith("package"):
            continue
        for (a, b) in code_spans(line):
            seg = line[a:b]
            for old, new in SWAPS:
                for m in re.finditer(re.escape(old), seg):
                    col = a + m.start()
                    if old in ("true", "false"):
                        before = line[col - 1] if col > 0 else " "
                        after = line[col + len(old)] if col + len(old) < len(line) else " "
                        if before.isalnum() or before in "_\"." or after.isalnum() or after in "_\"":
                            continue
                    if old in ("<=", ">=") and False:
                        continue
                    if old == "==" and col > 0 and line[col - 1] in "!<>=":
                        continue
                    if old in ("+1", "+ 1") and (col + len(old) < len(line) and line[col + len(old)].isdigit()):
                        continue
                    out.append((ln, col, old, new))
    return lines, out


def sh(cmd, cwd=None, env=ENV, timeout=3600):
    p = subprocess.run(cmd, cwd=cwd, env=env, capture_output=True, text=True, timeout=timeout)
    return p.returncode, p.stdout + p.stderr


def main():
    args = sys.argv[1:]
    outp = os.path.join(HERE, "mutsweep", "RESULTS.txt")
    only, mx = None, None
    while args:
        a = args.pop(0)
        if a == "-o":
            outp = args.pop(0)
        elif a == "-only":
            only = args.pop(0).split(",")
        elif a == "-max":
            mx = int(args.pop(0))
    os.makedirs(os.path.dirname(outp), exist_ok=True)
    done = set()
    if os.path.exists(outp):
        for l in open(outp):
            m = re.search(r"(\S+:\d+:\d+) ", l)
            if m:
                done.add(m.group(1))
    os.makedirs("/tmp/scratch", exist_ok=True)
    wt = "/tmp/scratch/mutsweep-wt-%d" % os.getpid()
    root = "/tmp/scratch/mutsweep-out-%d" % os.getpid()
    subprocess.run(["git", "-C", "/repo", "worktree", "add", "-q", "--detach", wt, "HEAD"], check=True)
    count = 0
    try:
        with open(outp, "a") as res:
            for f, checks in CHECKS.items():
                if only and f not in only:
                    continue
                path = os.path.join(wt, f)
                lines, muts = mutants_of(path)
                orig = "\n".join(lines)
                for (ln, col, old, new) in muts:
                    ident = "%s:%d:%d" % (f, ln + 1, col + 1)
                    if ident in done:
                        continue
                    if mx is not None and count >= mx:
                        return
                    count += 1
                    ml = list(lines)
                    ml[ln] = lines[ln][:col] + new + lines[ln][col + len(old):]
                    open(path, "w").write("\n".join(ml))
                    t0 = time.time()
                    verdict = None
                    rc, out = sh(["go", "build", "./..."], cwd=wt)
                    if rc != 0:
                        verdict = "STILLBORN"
                    else:
                        notes = []
                        env = dict(ENV, VERIF_REPO=wt, VERIF_ROOT=root)
                        for c in checks:
                            rc, out = sh([os.path.join(HERE, "run.sh"), c, "quick"], env=env, timeout=7200)
                            if rc == 1 and re.search(r"^VIOLATION property=%s " % c, out, re.M):
                                k = re.search(r"^  key=(\S+)", out, re.M)
                                verdict = "KILLED-BY-CHECK %s %s" % (c, k.group(1) if k else "")
                                break
                            if rc != 0:
                                notes.append("%s:exit%d" % (c, rc))
                        if verdict is None:
                            rc, out = sh(["python3", os.path.join(HERE, "tools", "baseline.py"), wt])
                            verdict = "KILLED-BY-TESTS" if rc != 0 else "SURVIVED"
                        if notes:
                            verdict += " [" + ",".join(notes) + "]"
                    open(path, "w").write(orig)
                    res.write("%-28s %s  %s -> %s   | %s   (%.0fs)\n" % (verdict, ident, old.strip(), new.strip(), lines[ln].strip()[:110], time.time() - t0))
                    res.flush()
    finally:
        subprocess.run(["git", "-C", "/repo", "worktree", "remove", "--force", wt])
        subprocess.run(["rm", "-rf", root])


if __name__ == "__main__":
    main()
