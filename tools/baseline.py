#!/usr/bin/env python3
"""Runs the repository's pinned suite and checks that every test in BASELINE.json's stable_pass passes.
usage: baseline.py [repo_dir]; exit 0 if all stable tests pass."""
import json, subprocess, sys, os
repo = sys.argv[1] if len(sys.argv) > 1 else "/repo"
base = json.load(open("/root/.vp/BASELINE.json"))
want = set(base["stable_pass"])
env = dict(os.environ, GOFLAGS="-mod=mod", GOPROXY="off", GOSUMDB="off", GOTOOLCHAIN="local")
p = subprocess.run(["go", "test", "-mod=mod", "-json", "-vet=off", "-count=1", "-timeout", "25m", "./..."], cwd=repo, env=env, capture_output=True, text=True)
passed = set()
for line in p.stdout.splitlines():
    try:
        ev = json.loads(line)
    except Exception:
        continue
    if ev.get("Action") == "pass" and ev.get("Test"):
        passed.add(ev["Package"] + "::" + ev["Test"])
missing = sorted(want - passed)
print("baseline: %d/%d stable tests pass" % (len(want & passed), len(want)))
for m in missing[:10]:
    print("  NOT PASSING:", m)
sys.exit(0 if not missing else 1)
