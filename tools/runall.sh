#!/bin/bash
# runall.sh [tier]  runs every claimed check sequentially against /repo and prints a summary line each
cd "$(dirname "$0")/.." || exit 2
tier=${1:-quick}
for p in $(python3 -c "import json;print(' '.join(c['property_id'] for c in json.load(open('MANIFEST.json'))['checks']))"); do
  s=$(date +%s)
  out=$(./run.sh $p $tier 2>&1); code=$?
  echo "$p exit=$code $(( $(date +%s)-s ))s $(echo "$out" | tail -1 | cut -c1-160)"
  echo "$out" | grep -E "^VIOLATION|^HARNESS-ERROR" | head -5
done
