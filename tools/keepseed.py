#!/usr/bin/env python3
"""keepseed.py <Cxx> <name> "<checks that caught it>" "<detection note>" <round>
Copies a confirmed seeded change from /tmp/seed/<Cxx>/SEED to seeded/<Cxx>-r<round>-<name>/ with
the bookkeeping fields filled in, then removes the scratch worktree."""
import json, shutil, os, subprocess, sys, datetime
p, name, checks, note, rnd = sys.argv[1:6]
src = f'/tmp/seed/{p}/SEED'
dst = f'/verif/seeded/{p}-r{rnd}-{name}'
os.makedirs(dst, exist_ok=True)
shutil.copy(src + '/patch.diff', dst + '/patch.diff')
shutil.copy(src + '/demo_test.go', dst + '/demo_test.go.txt')
m = json.load(open(src + '/meta.json'))
m['confirmed_by_me'] = {'how': 'tools/seedcheck.sh in a scratch worktree of /repo HEAD: patch applies, go build ok, 117/117 baseline tests pass, demo fails with patch, demo passes without', 'date': str(datetime.date.today())}
m['caught_by_checks'] = checks.split()
m['detection_note'] = note
m['round'] = int(rnd)
json.dump(m, open(dst + '/meta.json', 'w'), indent=1)
subprocess.run(['git', '-C', '/repo', 'worktree', 'remove', '--force', f'/tmp/seed/{p}'])
subprocess.run(['git', '-C', '/repo', 'worktree', 'prune'])
print('kept', dst)
