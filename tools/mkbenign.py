#!/usr/bin/env python3
"""mkbenign.py <name> "<Cxx Cyy ...>" <file> <old> <new> [<file> <old> <new> ...]
Creates benign/<name>.patch: a property-PRESERVING refactor of the library (exact single-occurrence
replacements made in a scratch worktree of /repo's HEAD, never in /repo). The first line of the
patch names the checks that must stay silent on it (benigntest.sh)."""
import subprocess, sys, os
name, checks = sys.argv[1], sys.argv[2]
triples = sys.argv[3:]
assert len(triples) % 3 == 0 and triples
here = os.path.dirname(os.path.dirname(os.path.abspath(__file__)))
wt = "/tmp/scratch/mkbenign-%d" % os.getpid()
os.makedirs("/tmp/scratch", exist_ok=True)
subprocess.run(["git", "-C", "/repo", "worktree", "add", "-q", "--detach", wt, "HEAD"], check=True)
try:
    for i in range(0, len(triples), 3):
        f, old, new = triples[i:i+3]
        if old.startswith("@"): old = open(old[1:]).read()
        if new.startswith("@"): new = open(new[1:]).read()
        p = os.path.join(wt, f)
        s = open(p).read()
        assert s.count(old) == 1, "%s: %d occurrences of %r" % (f, s.count(old), old[:80])
        open(p, "w").write(s.replace(old, new))
    env = dict(os.environ, GOFLAGS="-mod=mod", GOPROXY="off", GOSUMDB="off", GOTOOLCHAIN="local")
    b = subprocess.run(["go", "build", "./..."], cwd=wt, env=env, capture_output=True, text=True)
    assert b.returncode == 0, b.stderr
    d = subprocess.run(["git", "-C", wt, "diff"], capture_output=True, text=True).stdout
    open(os.path.join(here, "benign", name + ".patch"), "w").write("# checks: %s\n%s" % (checks, d))
    print("wrote benign/%s.patch (%d lines)" % (name, d.count("\n")))
finally:
    subprocess.run(["git", "-C", "/repo", "worktree", "remove", "--force", wt])
