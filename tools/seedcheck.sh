#!/bin/bash
# seedcheck.sh <Cxx> <seed-dir> [check-ids...]  Confirms a seeded change in a scratch worktree of /repo's HEAD
# (builds, baseline passes, demo fails with it and passes without), then runs the quick check(s)
# (default: the property's own) against that worktree through VERIF_REPO. /repo is never touched.
set -u
P=$1; SD=$2; shift 2; CHECKS="${@:-$P}"
export GOFLAGS=-mod=mod GOPROXY=off GOSUMDB=off GOTOOLCHAIN=local
WT=/tmp/scratch/seedwt-$$
mkdir -p /tmp/scratch
git -C /repo worktree add -q --detach $WT HEAD || exit 2
trap 'git -C /repo worktree remove --force $WT 2>/dev/null' EXIT
DEMODIR=$(python3 -c "import json;print(json.load(open('$SD/meta.json')).get('demo_dir','.'))")
if ! git -C $WT apply $SD/patch.diff; then echo "SEED $P: patch does not apply to HEAD"; exit 1; fi
(cd $WT && go build ./... ) && echo "SEED $P: builds" || { echo "SEED $P: BUILD FAILS"; exit 1; }
python3 /verif/tools/baseline.py $WT | head -3
cp $(ls $SD/demo_test.go $SD/demo_test.go.txt 2>/dev/null | head -1) $WT/$DEMODIR/zz_seed_demo_test.go
(cd $WT/$DEMODIR && go test -mod=mod -vet=off -count=1 -run 'Seed|Demo|C[0-9][0-9]' . >/tmp/scratch/demo_with.log 2>&1) && echo "SEED $P: demo PASSES with patch (bad)" || echo "SEED $P: demo fails with patch (good)"
git -C $WT apply -R $SD/patch.diff
(cd $WT/$DEMODIR && go test -mod=mod -vet=off -count=1 -run 'Seed|Demo|C[0-9][0-9]' . >/tmp/scratch/demo_without.log 2>&1) && echo "SEED $P: demo passes without patch (good)" || { echo "SEED $P: demo FAILS without patch (bad)"; tail -5 /tmp/scratch/demo_without.log; }
cd /verif
git -C $WT apply $SD/patch.diff || exit 1
for c in $CHECKS; do
  out=$(VERIF_REPO=$WT VERIF_ROOT=/tmp/scratch/seedverif-$$ ./run.sh $c quick 2>&1); code=$?
  echo "SEED $P: check $c exit=$code $(echo "$out" | grep -m1 '^VIOLATION') $(echo "$out" | grep -m1 '  key=' | cut -c1-260)"
done
rm -rf /tmp/scratch/seedverif-$$
