#!/usr/bin/env python3
"""mkmutant.py <Cxx> <name> <file> <old> <new> [<file> <old> <new> ...]
Creates mutants/<Cxx>/<name>.patch by replacing exactly one occurrence of <old> with <new> in
/repo/<file> (repeated for more sites), taking git diff, and reverting. /repo is left clean."""
import subprocess, sys, os
prop, name = sys.argv[1], sys.argv[2]
triples = sys.argv[3:]
assert len(triples) % 3 == 0 and triples
here = os.path.dirname(os.path.dirname(os.path.abspath(__file__)))
assert subprocess.run(["git", "-C", "/repo", "status", "--porcelain"], capture_output=True, text=True).stdout == "", "/repo not clean"
try:
    for i in range(0, len(triples), 3):
        f, old, new = triples[i:i+3]
        old = old.encode().decode("unicode_escape"); new = new.encode().decode("unicode_escape")
        p = os.path.join("/repo", f)
        s = open(p).read()
        assert s.count(old) == 1, "%s: %d occurrences of %r" % (f, s.count(old), old)
        open(p, "w").write(s.replace(old, new))
    d = subprocess.run(["git", "-C", "/repo", "diff"], capture_output=True, text=True).stdout
    os.makedirs(os.path.join(here, "mutants", prop), exist_ok=True)
    open(os.path.join(here, "mutants", prop, name + ".patch"), "w").write(d)
    print("wrote mutants/%s/%s.patch (%d lines)" % (prop, name, d.count("\n")))
finally:
    subprocess.run(["git", "-C", "/repo", "checkout", "--", "."])
