claim("C02", "E-CHOICE", "bounded exhaustive enumeration (choice-point DFS, full product) of signer x store x clock x message kind against a reference model",
      "Every one of the 6x12x7x11x2 combinations of message kind, signer state, certificate store, clock position relative to the certificate window and presentation is generated, signed by the harness IdP and run through the real validators; the verdict must agree with a reference model of 'honoured' written from the statement. Exhaustive inside that alphabet.",
      "Trusted: Go crypto, goxmldsig canonicalisers used by the harness signer; alphabet limited to the listed signer states / stores / clock positions.",
      "DESIGN.md 3/C02")
