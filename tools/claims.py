claim("C02", "E-CHOICE", "bounded exhaustive enumeration (choice-point DFS, full product) of signer x store x clock x message kind against a reference model",
      "Every one of the 6x12x7x11x2 combinations of message kind, signer state, certificate store, clock position relative to the certificate window and presentation is generated, signed by the harness IdP and run through the real validators; the verdict must agree with a reference model of 'honoured' written from the statement. Exhaustive inside that alphabet.",
      "Trusted: Go crypto, goxmldsig canonicalisers used by the harness signer; alphabet limited to the listed signer states / stores / clock positions.",
      "DESIGN.md 3/C02")
claim("C03", "E-CHOICE", "bounded exhaustive enumeration (deviation-bounded choice-point DFS) of profile faults at every assertion position against a reference model of violated checks",
      "Every combination of at most 2 (quick) / 3 (thorough) profile faults from a 20-fault menu, at every assertion position for 0..3 assertions, under 6 configurations and both entry points, is rendered, signed and validated by the real code; accept iff the model's set of violated checks is empty, and each rejection must be the typed error naming a violated element.",
      "Trusted: harness generator and its reading of the statement (Issuer must be present even with no configured IdP issuer). Bound: fault menu, <=3 simultaneous faults, n<=3.",
      "DESIGN.md 3/C03")
claim("C05", "E-CHOICE", "bounded exhaustive enumeration of all orderings/equalities of up to five instants on a grid x clock positions x renderings, integer-comparison oracle",
      "All 5^3+5^4 assignments of the time bounds of 1-2 assertions to a half-second grid, each at all 5 clock positions (every ordering and every equality), with deviation-bounded RFC 3339 renderings and a malformed/missing menu, run through RetrieveAssertionInfo; expected verdict computed by integer comparison on grid indices.",
      "Trusted: fake clock injection (dsig.Clock). Bound: 5-point grid, 7 renderings with <=2-3 simultaneous rendering deviations, 7 malformed forms.",
      "DESIGN.md 3/C05")
claim("C06", "E-CHOICE", "bounded exhaustive enumeration of audience-restriction multisets x configured URI x OneTimeUse x ProxyRestriction against set semantics",
      "Every sequence of 0..2 (quick) / 0..3 (thorough) AudienceRestrictions over every ordered list of 0..2 audiences from a 6-value near-miss alphabet, with OneTimeUse and 5 ProxyRestriction shapes, under 3 configured URIs (incl. empty) is signed and run through RetrieveAssertionInfo; warnings must equal the set semantics of the statement.",
      "Bound: alphabet of 6 audience values, <=2 audiences per restriction, <=3 restrictions.",
      "DESIGN.md 3/C06")
