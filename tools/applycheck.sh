#!/bin/bash
# applycheck.sh   every stored patch (mutants/, benign/, seeded/) must still apply to /repo's HEAD
# (checked in a scratch worktree; /repo is not touched). Prints NOAPPLY <file> for each that does not.
WT=/tmp/scratch/applywt-$$
mkdir -p /tmp/scratch
git -C /repo worktree add -q --detach $WT HEAD || exit 2
trap 'git -C /repo worktree remove --force $WT 2>/dev/null' EXIT
cd "$(dirname "$0")/.." || exit 2
n=0; bad=0
for f in mutants/*/*.patch benign/*.patch seeded/*/patch.diff; do
  n=$((n+1))
  git -C $WT apply --check "$PWD/$f" 2>/dev/null || { echo "NOAPPLY $f"; bad=$((bad+1)); }
done
echo "applycheck: $n patches, $bad do not apply to $(git -C /repo rev-parse --short HEAD)"
[ $bad = 0 ]
