#!/usr/bin/env python3
"""Regenerates /verif/MANIFEST.json from the table below (keeps it schema-valid at all times)."""
import json, os, sys
here = os.path.dirname(os.path.dirname(os.path.abspath(__file__)))
props = [json.loads(l)["id"] for l in open(os.path.join(here, "properties.jsonl"))]

# id -> (engine, technique, level text, level note, design ref)
claimed = {}
def claim(pid, engine, technique, text, note, ref, category="model_checking"):
    claimed[pid] = dict(engine=engine, technique=technique, text=text, note=note, ref=ref, category=category)

exec(open(os.path.join(here, "tools", "claims.py")).read())

checks = []
for pid in props:
    if pid not in claimed:
        continue
    c = claimed[pid]
    checks.append({
        "property_id": pid,
        "quick_cmd": "./run.sh %s quick" % pid,
        "thorough_cmd": "./run.sh %s thorough" % pid,
        "evidence_file": "/verif/evidence/%s.json" % pid,
        "replay_cmd_template": "./run.sh replay {path}",
        "engine": c["engine"],
        "level_claimed": {"category": c["category"], "text": c["text"], "design_ref": c["ref"]},
        "level_note": c["note"],
        "technique": c["technique"],
    })
na = [{"property_id": p, "reason": "no check claimed yet: the bounded-exhaustive check for this property (DESIGN.md section 3) is not built or not yet shown to catch its mutants; the technique applies, nothing is claimed until it is"} for p in props if p not in claimed]
m = {
    "version": 1,
    "setup_cmd": "./setup.sh",
    "hooks": {
        "guard": "verif",
        "enable": "no source hooks are committed: the scheduler build rewrites /repo's current files into a go build -overlay (instr/) at check time; all other checks use the exported API only",
        "baseline_off_cmd": "cd /repo && go test -mod=mod -json -vet=off -count=1 -timeout 25m ./...",
        "source_commits": [],
        "add_only": True,
    },
    "engines": [
        {"name": "E-CHOICE", "path": "mc/choose.go", "serves_properties": [p for p in props if p in claimed and "E-CHOICE" in claimed[p]["engine"]], "kind_free_text": "stateless choice-point DFS with deviation bound over the real entry points"},
        {"name": "E-BFS", "path": "mc/bfs.go", "serves_properties": [p for p in props if p in claimed and "E-BFS" in claimed[p]["engine"]], "kind_free_text": "explicit-state breadth-first search over hashed attacker documents / call histories, invariant evaluated by the real code in every state"},
        {"name": "E-SCHED", "path": "vsched/", "serves_properties": [p for p in props if p in claimed and "E-SCHED" in claimed[p]["engine"]], "kind_free_text": "controlled cooperative scheduler over an overlay build of the library (sync shim + yields), preemption-bounded DFS"},
        {"name": "E-FAULT", "path": "cmd/vcheck/c09.go", "serves_properties": [p for p in props if p in claimed and "E-FAULT" in claimed[p]["engine"]], "kind_free_text": "fault-position enumerator: every truncation / bit flip / substitution position of a base input"},
    ],
    "checks": checks,
    "not_applicable": na,
    "notes": "All checks run the real library built from /repo's working tree (go.mod replace). Known genuine defects: known_findings.txt. See DESIGN.md.",
}
json.dump(m, open(os.path.join(here, "MANIFEST.json"), "w"), indent=1)
print("claimed:", sorted(claimed), "unclaimed:", [x["property_id"] for x in na])
