// Package recipient holds independent consumers of what the service provider emits: an
// encoding/xml token walker (not etree, whose writer is the code under test), a raw query
// splitter and redirect-signature verifier, and a small strict HTML tokenizer.
package recipient

import (
	"bytes"
	"encoding/xml"
	"fmt"
	"io"
	"strings"
)

// Node is an element as a namespace-aware parser delivers it.
type Node struct {
	NS, Local string
	Attrs     []Attr // namespace declarations excluded
	Children  []*Node
	Text      string // concatenated character data directly under the element
	Comments  int
}

type Attr struct{ NS, Local, Value string }

// Parse reads a whole document with encoding/xml in strict mode and returns its root. It
// fails on anything after the root other than whitespace, comments and PIs.
func Parse(b []byte) (*Node, error) {
	dec := xml.NewDecoder(bytes.NewReader(b))
	dec.Strict = true
	var root *Node
	var stack []*Node
	for {
		tok, err := dec.Token()
		if err == io.EOF {
			break
		}
		if err != nil {
			return nil, err
		}
		switch t := tok.(type) {
		case xml.StartElement:
			n := &Node{NS: t.Name.Space, Local: t.Name.Local}
			for _, a := range t.Attr {
				if a.Name.Space == "xmlns" || (a.Name.Space == "" && a.Name.Local == "xmlns") {
					continue
				}
				n.Attrs = append(n.Attrs, Attr{a.Name.Space, a.Name.Local, a.Value})
			}
			if len(stack) == 0 {
				if root != nil {
					return nil, fmt.Errorf("second root element")
				}
				root = n
			} else {
				p := stack[len(stack)-1]
				p.Children = append(p.Children, n)
			}
			stack = append(stack, n)
		case xml.EndElement:
			stack = stack[:len(stack)-1]
		case xml.CharData:
			if len(stack) > 0 {
				stack[len(stack)-1].Text += string(t)
			} else if strings.TrimSpace(string(t)) != "" {
				return nil, fmt.Errorf("character data outside the root")
			}
		case xml.Comment:
			if len(stack) > 0 {
				stack[len(stack)-1].Comments++
			}
		}
	}
	if root == nil {
		return nil, fmt.Errorf("no root element")
	}
	if len(stack) != 0 {
		return nil, fmt.Errorf("unclosed element")
	}
	return root, nil
}

// Attr returns the value of the un-namespaced attribute and whether it is present exactly once.
func (n *Node) Attr(local string) (string, int) {
	v, c := "", 0
	for _, a := range n.Attrs {
		if a.NS == "" && a.Local == local {
			v = a.Value
			c++
		}
	}
	return v, c
}

// Count returns the number of elements in the subtree (the node included).
func (n *Node) Count() int {
	c := 1
	for _, ch := range n.Children {
		c += ch.Count()
	}
	return c
}

// RawHazards reports lexical features of serialised XML that a conforming (non-Go) parser
// would normalise away, changing the value or the signed bytes: a raw carriage return
// anywhere, and a raw TAB or LF inside an attribute value.
func RawHazards(b []byte) []string {
	var out []string
	if bytes.IndexByte(b, '\r') >= 0 {
		out = append(out, "raw-carriage-return")
	}
	// scan tags, tracking quotes
	inTag, q := false, byte(0)
	for i := 0; i < len(b); i++ {
		c := b[i]
		switch {
		case !inTag && c == '<' && i+1 < len(b) && b[i+1] != '!' && b[i+1] != '?' && b[i+1] != '/':
			inTag = true
		case inTag && q == 0 && (c == '"' || c == '\''):
			q = c
		case inTag && q != 0 && c == q:
			q = 0
		case inTag && q == 0 && c == '>':
			inTag = false
		case inTag && q != 0 && (c == '\t' || c == '\n'):
			out = append(out, "raw-tab-or-newline-in-attribute-value")
			return out
		}
	}
	return out
}
