package recipient

import (
	"fmt"
	"strconv"
	"strings"
)

// HTMLTok is one token of a strictly tokenised HTML fragment.
type HTMLTok struct {
	Kind        string // "start", "end", "text", "script-text", "comment", "doctype"
	Name        string
	Attrs       []HTMLAttr
	Text        string
	SelfClosing bool
}

type HTMLAttr struct{ Name, Value string }

// TokenizeHTML is a small strict tokenizer: tags with double-quoted, single-quoted, unquoted or
// valueless attributes, character references in attribute values and text, raw text inside
// <script>, comments and a doctype. Anything that the HTML syntax calls a parse error (stray
// '<', a quote or '=' or '<' inside an unquoted value, '<' inside a quoted one, a bare '&',
// "--" inside a comment) is an error, so a page that only parses under browser error recovery
// is rejected.
func TokenizeHTML(s string) ([]HTMLTok, error) {
	var out []HTMLTok
	i := 0
	for i < len(s) {
		if s[i] != '<' {
			j := strings.IndexByte(s[i:], '<')
			if j < 0 {
				j = len(s) - i
			}
			t, err := UnescapeHTML(s[i : i+j])
			if err != nil {
				return nil, err
			}
			out = append(out, HTMLTok{Kind: "text", Text: t})
			i += j
			continue
		}
		if strings.HasPrefix(s[i:], "</") {
			j := strings.IndexByte(s[i:], '>')
			if j < 0 {
				return nil, fmt.Errorf("unterminated end tag")
			}
			name := s[i+2 : i+j]
			if !isName(name) {
				return nil, fmt.Errorf("bad end tag %q", name)
			}
			out = append(out, HTMLTok{Kind: "end", Name: strings.ToLower(name)})
			i += j + 1
			continue
		}
		if strings.HasPrefix(s[i:], "<!--") {
			e := strings.Index(s[i+4:], "-->")
			if e < 0 {
				return nil, fmt.Errorf("unterminated comment")
			}
			body := s[i+4 : i+4+e]
			if strings.Contains(body, "--") || strings.HasPrefix(body, ">") || strings.HasPrefix(body, "->") {
				return nil, fmt.Errorf("malformed comment")
			}
			out = append(out, HTMLTok{Kind: "comment", Text: body})
			i += 4 + e + 3
			continue
		}
		if len(s) >= i+9 && strings.EqualFold(s[i:i+9], "<!doctype") {
			e := strings.IndexByte(s[i:], '>')
			if e < 0 || strings.ContainsAny(s[i+1:i+e], "<\"'") {
				return nil, fmt.Errorf("malformed doctype")
			}
			out = append(out, HTMLTok{Kind: "doctype", Text: strings.ToLower(s[i+2 : i+e])})
			i += e + 1
			continue
		}
		// start tag
		j := i + 1
		for j < len(s) && isNameChar(s[j]) {
			j++
		}
		name := s[i+1 : j]
		if !isName(name) {
			return nil, fmt.Errorf("stray '<' at offset %d", i)
		}
		tok := HTMLTok{Kind: "start", Name: strings.ToLower(name)}
		for {
			for j < len(s) && isHTMLSpace(s[j]) {
				j++
			}
			if j >= len(s) {
				return nil, fmt.Errorf("unterminated tag <%s", name)
			}
			if s[j] == '>' {
				j++
				break
			}
			if strings.HasPrefix(s[j:], "/>") {
				tok.SelfClosing = true
				j += 2
				break
			}
			k := j
			for k < len(s) && isNameChar(s[k]) {
				k++
			}
			an := s[j:k]
			if !isName(an) || k >= len(s) {
				return nil, fmt.Errorf("attribute syntax in <%s> near %q", name, s[j:minInt(len(s), j+20)])
			}
			if s[k] != '=' {
				// an attribute without a value
				if !isHTMLSpace(s[k]) && s[k] != '>' && !strings.HasPrefix(s[k:], "/>") {
					return nil, fmt.Errorf("attribute syntax in <%s> near %q", name, s[j:minInt(len(s), j+20)])
				}
				tok.Attrs = append(tok.Attrs, HTMLAttr{strings.ToLower(an), ""})
				j = k
				continue
			}
			if k+1 >= len(s) {
				return nil, fmt.Errorf("unterminated tag <%s", name)
			}
			var raw string
			switch q := s[k+1]; q {
			case '"', '\'':
				e := strings.IndexByte(s[k+2:], q)
				if e < 0 {
					return nil, fmt.Errorf("unterminated attribute value")
				}
				raw = s[k+2 : k+2+e]
				j = k + 2 + e + 1
				if j < len(s) && !isHTMLSpace(s[j]) && s[j] != '>' && !strings.HasPrefix(s[j:], "/>") {
					return nil, fmt.Errorf("no space after the attribute value in <%s>", name)
				}
			default:
				e := k + 1
				for e < len(s) && !isHTMLSpace(s[e]) && s[e] != '>' {
					e++
				}
				raw = s[k+1 : e]
				if raw == "" || strings.ContainsAny(raw, "\"'=<`") {
					return nil, fmt.Errorf("unquoted attribute value %q in <%s>", raw, name)
				}
				j = e
			}
			if strings.ContainsAny(raw, "<") {
				return nil, fmt.Errorf("raw '<' inside attribute value")
			}
			v, err := UnescapeHTML(raw)
			if err != nil {
				return nil, err
			}
			tok.Attrs = append(tok.Attrs, HTMLAttr{strings.ToLower(an), v})
		}
		out = append(out, tok)
		i = j
		if tok.Name == "script" && !tok.SelfClosing {
			e := strings.Index(strings.ToLower(s[i:]), "</script")
			if e < 0 {
				return nil, fmt.Errorf("unterminated script")
			}
			out = append(out, HTMLTok{Kind: "script-text", Text: s[i : i+e]})
			i += e
		}
	}
	return out, nil
}

func minInt(a, b int) int {
	if a < b {
		return a
	}
	return b
}

func isHTMLSpace(c byte) bool { return c == ' ' || c == '\n' || c == '\t' || c == '\r' || c == '\f' }

func isNameChar(c byte) bool {
	return c >= 'a' && c <= 'z' || c >= 'A' && c <= 'Z' || c >= '0' && c <= '9' || c == '-' || c == '_'
}

func isName(s string) bool {
	if s == "" {
		return false
	}
	for i := 0; i < len(s); i++ {
		if !isNameChar(s[i]) {
			return false
		}
	}
	return true
}

// UnescapeHTML decodes numeric character references and the five named ones; any other
// '&' sequence is an error.
func UnescapeHTML(s string) (string, error) {
	var sb strings.Builder
	for i := 0; i < len(s); i++ {
		if s[i] != '&' {
			sb.WriteByte(s[i])
			continue
		}
		j := strings.IndexByte(s[i:], ';')
		if j < 0 || j > 10 {
			return "", fmt.Errorf("bare '&' in HTML")
		}
		ref := s[i+1 : i+j]
		switch {
		case ref == "amp":
			sb.WriteByte('&')
		case ref == "lt":
			sb.WriteByte('<')
		case ref == "gt":
			sb.WriteByte('>')
		case ref == "quot":
			sb.WriteByte('"')
		case ref == "apos":
			sb.WriteByte('\'')
		case strings.HasPrefix(ref, "#x") || strings.HasPrefix(ref, "#X"):
			n, err := strconv.ParseUint(ref[2:], 16, 32)
			if err != nil {
				return "", fmt.Errorf("bad reference &%s;", ref)
			}
			sb.WriteRune(rune(n))
		case strings.HasPrefix(ref, "#"):
			n, err := strconv.ParseUint(ref[1:], 10, 32)
			if err != nil {
				return "", fmt.Errorf("bad reference &%s;", ref)
			}
			sb.WriteRune(rune(n))
		default:
			return "", fmt.Errorf("unknown reference &%s;", ref)
		}
		i += j
	}
	return sb.String(), nil
}
