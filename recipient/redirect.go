package recipient

import (
	"bytes"
	"compress/flate"
	"encoding/base64"
	"fmt"
	"io"
	"strings"
)

// Param is one query parameter exactly as it appears in the URL (raw, still encoded).
type Param struct{ RawName, RawValue string }

// SplitURL splits a URL at the first '?' and the query at '&' and the first '=' of each
// piece, by hand: nothing is decoded, nothing is reordered.
func SplitURL(u string) (base string, params []Param) {
	i := strings.IndexByte(u, '?')
	if i < 0 {
		return u, nil
	}
	base = u[:i]
	q := u[i+1:]
	if j := strings.IndexByte(q, '#'); j >= 0 {
		q = q[:j]
	}
	if q == "" {
		return base, nil
	}
	for _, piece := range strings.Split(q, "&") {
		k, v := piece, ""
		if j := strings.IndexByte(piece, '='); j >= 0 {
			k, v = piece[:j], piece[j+1:]
		}
		params = append(params, Param{k, v})
	}
	return base, params
}

// PctDecode decodes application/x-www-form-urlencoded octets: %XX and '+'. It is strict: a
// malformed escape is an error.
func PctDecode(s string) (string, error) {
	var b bytes.Buffer
	for i := 0; i < len(s); i++ {
		switch s[i] {
		case '+':
			b.WriteByte(' ')
		case '%':
			if i+2 >= len(s) {
				return "", fmt.Errorf("truncated escape")
			}
			h, ok1 := unhex(s[i+1])
			l, ok2 := unhex(s[i+2])
			if !ok1 || !ok2 {
				return "", fmt.Errorf("bad escape %q", s[i:i+3])
			}
			b.WriteByte(h<<4 | l)
			i += 2
		default:
			b.WriteByte(s[i])
		}
	}
	return b.String(), nil
}

func unhex(c byte) (byte, bool) {
	switch {
	case c >= '0' && c <= '9':
		return c - '0', true
	case c >= 'a' && c <= 'f':
		return c - 'a' + 10, true
	case c >= 'A' && c <= 'F':
		return c - 'A' + 10, true
	}
	return 0, false
}

// InflateB64 base64-decodes and raw-DEFLATE-inflates (RFC 1951, no zlib header).
func InflateB64(s string) ([]byte, error) {
	raw, err := base64.StdEncoding.DecodeString(s)
	if err != nil {
		return nil, err
	}
	out, err := io.ReadAll(flate.NewReader(bytes.NewReader(raw)))
	if err != nil {
		return nil, err
	}
	return out, nil
}
